(* E1 model AtomicList: the link-level lock-free intrusive list
     include/unifex/detail/atomic_intrusive_list.hpp
     source/atomic_intrusive_list.cpp
   that underlies v2::async_mutex (queue_, Latch = false: push_back / pop_front / try_remove /
   empty) and v2::async_manual_reset_event (waiters_, Latch = true: push_front_unless_latched /
   latch_and_drain into a stack-local list / pop_front of that local list / try_remove / unlatch /
   is_latched).

   THE PROTOCOL AS READ FROM THE CODE
   ---------------------------------
   Memory.  A *link* is one atomic word: pointer + bit 0 = spin lock.  Links are the list's head_
   and every node's rest.  Every node (and the sentinel, and the latch sentinel) also has
   self : atomic<link*>, a back pointer to the link that currently points at it (nullptr: in no
   list).  The chain of a list is head_ -> n1 -> n2 ... -> nk -> &sentinel_; sentinel_.self is
   therefore the address of the TAIL link (head_ when empty, else nk.rest).  A latched list has
   head_ -> &sentinel_latch_, sentinel_latch_.self = &head_, sentinel_.self = nullptr.
   Ownership discipline (nowhere written down in the code, but every access obeys it):
     the lock of link L protects (a) the pointer stored in L and (b) the self field of the
     object L points at.
   A thread changes the chain only while holding the lock of every link whose pointer it
   changes; it announces the change in the self fields first and stores the new pointers with
   the unlocking stores (release).  Locks are taken predecessor before successor (chain order):
     push_front(_unless_latched)  head_
     push_back                    the tail link (found through sentinel_.self)
     pop_front                    head_, then first.rest
     try_remove(x)                the link x.self points at (found through x.self), then x.rest
     latch_and_drain / drain_into head_, then the tail link (found through sentinel_.self)
     unlatch                      head_
   A link that is found through a self pointer cannot be locked blindly, because the pointer may
   be stale by the time the lock is taken: try_lock_checking(lk, monitored, expected) spins on lk
   and re-reads `monitored` (the self field that named lk) whenever lk is seen locked and once
   more (after an acquire fence) between seeing lk unlocked with value v and the CAS v -> v|1.
   If `monitored` changed it gives up and the caller re-reads the self pointer.  The argument for
   the CAS being safe: `monitored` can only be changed by the holder of lk (discipline b), who
   publishes the change before the unlocking store; the CAS succeeds only on the value v read
   before the check, so (absent ABA on lk) lk was not locked between the check and the CAS.
   try_remove additionally re-reads x.self after the lock is taken.
   NOT protected: the load of lk itself.  The link lk belongs to a node p (the predecessor).
   Between the check of `monitored` and the load/CAS of lk another thread can unlink p
   (pop_front / try_remove of p), hand it back to its owner, and the owner may destroy it: the
   load touches freed storage (finding event_v2/touched-after-completion/rest).  If the storage
   is reused for a node that is pushed again the CAS can even succeed on it (ABA) - the model
   pushes every node at most once and tracks `freed`, which is enough to exhibit the access.
   empty() and is_latched() read head_ without the lock and strip the lock bit.

   THE MODEL
   ---------
   Nodes 0..nn-1, lists: list 0 is the shared list (sentinel PSent 0, latch sentinel PLatch 0),
   list t+1 is the private target list of thread t (the `local` of event::set()).  Threads run
   programs over the operations [op].  Granularity: lock(lk) is ONE blocking step EAcq (enabled
   when lk is unlocked; the loads / failed CASes feeding it are dropped by the projection),
   unlock is one step ERel, every other atomic access is one step - in particular every access
   of try_lock_checking (PT0..PT4) is a step of its own, the CAS included (it can fail).
   compare_exchange_weak is taken as strong.
   Lifetime ghost: n_freed x is set by the step in which a successful pop_front / try_remove
   returns x to its caller (who may destroy it at once).  [uaf] becomes true when a thread whose
   current operation is not try_remove(x) itself accesses x.self or x.rest afterwards
   (try_remove(x) is exempt: whoever calls it keeps x alive for the duration of the call).
   Specification ghosts (never inspected by the control flow, lemma step_erase in the proofs
   file): per list the abstract sequence l_abs and the abstract latch l_alatch, per thread the
   result t_lin computed by the sequential specification at the operation's linearisation
   point; [linbad] becomes true if an operation returns something else than its t_lin, or
   passes two / no linearisation points; [embad] becomes true if empty() answers outside its
   (weaker, see below) guarantee.
   LINEARISATION POINTS
     push_back b                  sentinel_.self.store(&b.rest)  [the tail is claimed; the item
                                  becomes reachable from head_ only with the following unlock]
     push_front_unless_latched b  unlock(head_, b)  /  answer false: the lock of head_
     pop_front                    first.self.store(nullptr)  /  answer nullptr: the lock of head_
     try_remove x   true          x.self.store(nullptr)
                    false         the load of x.self that returned nullptr
     latch_and_drain              unlock(head_, &sentinel_latch_)  /  already latched: lock of head_
     unlatch                      unlock(head_, &sentinel_)        /  not latched: lock of head_
     is_latched                   its load
   empty() is NOT linearisable with these (or any) points: it reads the pointer in head_
   regardless of the lock bit, so it answers true while a push_back into the empty list (and any
   number of completed push_backs behind it) is between its claim and its unlock, and false
   while the only element is between "self := nullptr" and the unlock of head_ of its remover.
   Its guarantee (flag embad):  true  => the abstract list is empty or head_ is locked by a
   push_back that has claimed the tail or by a push_front that has hooked its item in front of
   the sentinel (a push_back can then already have appended behind that unpublished item);  false => the abstract list is non-empty or head_ is
   locked by an operation that has already unlinked the node head_ still names: a pop_front /
   try_remove past its "self := nullptr", or a latch_and_drain that has moved the chain to its
   target, or a push_front that has hooked its item in front of the old first node (in the last
   two cases a try_remove may have removed and returned the node head_ still names).
   Preconditions of the C++ interface kept by the dispatcher (an operation violating them is
   skipped with ESkip): a node is pushed at most once (no re-use; a push_front_unless_latched
   that answered false did not push); push_back is not used on a
   latched list (sentinel_.self is nullptr there: the code would dereference it; the model
   records [crash] and stops that thread).  drain_into (unused by the library) is not modelled;
   push_front is push_front_unless_latched on a list that is never latched.
   Executable definitions only. *)
From Coq Require Import List Bool Arith.
Import ListNotations.

Module AtomicList.

Inductive link := LHead (l : nat) | LRest (n : nat).
Inductive ptr := PNull | PNode (n : nat) | PSent (l : nat) | PLatch (l : nat).

Inductive op :=
| OPushBack (b : nat)
| OPushFront (b : nat)        (* push_front_unless_latched *)
| OPop (loc : bool)           (* pop_front of the shared list (false) / of my target list (true) *)
| ORemove (a : nat)
| OLatchDrain                 (* latch_and_drain(my target list) *)
| OUnlatch
| OIsLatched
| OEmpty.

Inductive res := RUnit | RNone | RNode (n : nat) | RBool (b : bool).

(* who runs try_lock_checking, i.e. where it returns to *)
Inductive kont :=
| KPush (b : nat)             (* push_back b:       monitored = sentinel_.self *)
| KRem (a : nat)              (* try_remove a:      monitored = a.self *)
| KDrain (h : ptr).           (* latch_and_drain, old head h: monitored = sentinel_.self *)

Inductive pc :=
| PIdle
| PCrash (hl : list link)                 (* dereferenced a null / wild pointer, holding the locks of hl *)
(* push_back b                                             [atomic_intrusive_list.cpp:137-159] *)
| PB1 (b : nat)                           (* pred_link = sentinel_.self.load(acquire) *)
| PB2 (b : nat) (k : link)                (* holds k: item.self.store(pred_link, release) *)
| PB3 (b : nat) (k : link)                (* sentinel_.self.store(&item.rest, release) *)
| PB4 (b : nat) (k : link)                (* unlock(pred_link, item) *)
(* try_lock_checking(lk = k, monitored, expected = &k)     [atomic_intrusive_list.cpp:54-96] *)
| PT0 (c : kont) (k : link)               (* monitored.load(acquire), first check      :60 *)
| PT1 (c : kont) (k : link)               (* lk.load(relaxed)                          :66 / :73 *)
| PT2 (c : kont) (k : link)               (* lk was locked: monitored.load(acquire)    :69 *)
| PT3 (c : kont) (k : link) (v : ptr)     (* lk was unlocked = v: fence; monitored.load :80-82 *)
| PT4 (c : kont) (k : link) (v : ptr)     (* compare_exchange(v -> v|1)                :87 *)
(* pop_front of list l                                     [atomic_intrusive_list.cpp:161-181] *)
| PP1 (l : nat) (v : ptr)                 (* empty: unlock(head_, old_head); return nullptr *)
| PP2 (l : nat) (a : nat)                 (* lock(first.rest) *)
| PP3 (l : nat) (a : nat) (rv : ptr)      (* second.self.store(&head_, release) *)
| PP4 (l : nat) (a : nat) (rv : ptr)      (* first.self.store(nullptr, relaxed) *)
| PP5 (l : nat) (a : nat) (rv : ptr)      (* unlock(head_, rest_val) *)
| PP6 (a : nat)                           (* unlock(first.rest, 0); return first *)
(* try_remove a                                            [atomic_intrusive_list.cpp:183-219] *)
| PR0 (a : nat)                           (* head_ptr = item.self.load(acquire) *)
| PR1 (a : nat) (k : link) (v : ptr)      (* holds k: cur_self = item.self.load(acquire) *)
| PR1u (a : nat) (k : link) (v : ptr) (z : bool)   (* unlock(head_ptr, head_val); z: cur_self was null *)
| PR2 (a : nat) (k : link)                (* lock(item.rest) *)
| PR3 (a : nat) (k : link) (rv : ptr)     (* successor.self.store(head_ptr, release) *)
| PR4 (a : nat) (k : link) (rv : ptr)     (* item.self.store(nullptr, relaxed) *)
| PR5 (a : nat) (k : link) (rv : ptr)     (* unlock(head_ptr, rest_val) *)
| PR6 (a : nat)                           (* unlock(item.rest, 0); return true *)
(* push_front_unless_latched b                             [atomic_intrusive_list.cpp:265-292] *)
| PF1 (v : ptr)                           (* latched: unlock(head_, old_head); return false *)
| PF2 (b : nat) (v : ptr)                 (* item.rest.store(old_head, relaxed) *)
| PF3 (b : nat) (v : ptr)                 (* old_first.self.store(&item.rest, release) *)
| PF4 (b : nat)                           (* item.self.store(&head_, release) *)
| PF5 (b : nat)                           (* unlock(head_, item); return true *)
(* latch_and_drain(target = my list)                       [atomic_intrusive_list.cpp:294-340] *)
| PL1 (v : ptr)                           (* already latched: unlock(head_, old_head) *)
| PLe1                                    (* empty: sentinel_.self.store(nullptr, relaxed) *)
| PLe2                                    (* sentinel_latch_.self.store(&head_, release) *)
| PLe3                                    (* unlock(head_, &sentinel_latch_) *)
| PL2 (h : ptr)                           (* pred_link = sentinel_.self.load(acquire) *)
| PL3 (h : ptr) (k : link)                (* holds k: sentinel_.self.store(nullptr, relaxed) *)
| PL4 (h : ptr) (k : link)                (* sentinel_latch_.self.store(&head_, release) *)
| PL5 (h : ptr) (k : link)                (* target.sentinel_.self.store(pred_link, release) *)
| PL6 (h : ptr) (k : link)                (* target.head_.store(old_head, relaxed) *)
| PL7 (h : ptr) (k : link)                (* first.self.store(&target.head_, release) *)
| PL8 (k : link)                          (* unlock(pred_link, &target.sentinel_) *)
| PL9                                     (* unlock(head_, &sentinel_latch_) *)
(* unlatch                                                 [atomic_intrusive_list.cpp:342-358] *)
| PU1                                     (* sentinel_latch_.self.store(nullptr, relaxed) *)
| PU2                                     (* sentinel_.self.store(&head_, release) *)
| PU3                                     (* unlock(head_, &sentinel_) *)
| PU4 (v : ptr).                          (* not latched: unlock(head_, old_head) *)

Record nrec := {
  n_self : option link;
  n_rest : ptr;
  n_lock : option nat;        (* holder of the lock bit of rest *)
  n_used : bool;              (* has been pushed (interface precondition: at most once) *)
  n_freed : bool              (* handed back to its owner by a successful pop_front / try_remove *)
}.

Record lrec := {
  l_head : ptr;
  l_lock : option nat;        (* holder of the lock bit of head_ *)
  l_sself : option link;      (* sentinel_.self *)
  l_lself : option link;      (* sentinel_latch_.self *)
  l_abs : list nat;           (* ghost: abstract contents *)
  l_alatch : bool             (* ghost: abstract latch *)
}.

Record thread := {
  prog : list op;             (* operations still to start *)
  tpc : pc;
  t_lin : option res          (* ghost: result fixed at the linearisation point of the running operation *)
}.

Record st := {
  nodes : list nrec;
  lists : list lrec;
  thr : list thread;
  uaf : bool;                 (* a handed-back node was accessed *)
  crash : bool;               (* a null link pointer was dereferenced (push_back on a latched list) *)
  linbad : bool;              (* ghost: a result differs from the specification's *)
  embad : bool                (* ghost: empty() answered outside its guarantee *)
}.

Inductive ev :=
| EAcq (k : link) (v : ptr)                    (* lock taken: compare_exchange(v -> v|1) succeeded *)
| ERel (k : link) (v : ptr)                    (* lk.store(v, release) *)
| ELdSelf (x : ptr) (v : option link)          (* x.self.load(acquire) *)
| EStSelf (x : ptr) (v : option link)          (* x.self.store(v, release; relaxed when v is null) *)
| EStLink (k : link) (v : ptr)                 (* relaxed store to a link nobody else can reach yet *)
| ELdLink (k : link) (v : ptr) (lk : bool)     (* lk.load(relaxed) *)
| ECas (k : link) (v : ptr) (ok : bool) (seen : ptr) (seenlk : bool)   (* try_lock_checking: compare_exchange(v -> v|1); the word seen *)
| ERet (r : res)
| ESkip
| ECrash.

(* ---- equality ---- *)
Definition link_eqb (a b : link) : bool :=
  match a, b with
  | LHead x, LHead y => Nat.eqb x y
  | LRest x, LRest y => Nat.eqb x y
  | _, _ => false
  end.
Definition ptr_eqb (a b : ptr) : bool :=
  match a, b with
  | PNull, PNull => true
  | PNode x, PNode y => Nat.eqb x y
  | PSent x, PSent y => Nat.eqb x y
  | PLatch x, PLatch y => Nat.eqb x y
  | _, _ => false
  end.
Definition olink_eqb (a b : option link) : bool :=
  match a, b with
  | None, None => true
  | Some x, Some y => link_eqb x y
  | _, _ => false
  end.
Definition res_eqb (a b : res) : bool :=
  match a, b with
  | RUnit, RUnit => true
  | RNone, RNone => true
  | RNode x, RNode y => Nat.eqb x y
  | RBool x, RBool y => Bool.eqb x y
  | _, _ => false
  end.

(* ---- arrays ---- *)
Fixpoint set_nth {A} (n : nat) (x : A) (l : list A) : list A :=
  match l, n with
  | [], _ => []
  | _ :: r, O => x :: r
  | y :: r, S n' => y :: set_nth n' x r
  end.

Definition nnil : nrec :=
  {| n_self := None; n_rest := PNull; n_lock := None; n_used := false; n_freed := false |}.
Definition lnil : lrec :=
  {| l_head := PNull; l_lock := None; l_sself := None; l_lself := None; l_abs := []; l_alatch := false |}.

Definition node (s : st) (n : nat) : nrec := nth n (nodes s) nnil.
Definition lst (s : st) (l : nat) : lrec := nth l (lists s) lnil.

Definition with_nodes (s : st) (ns : list nrec) : st :=
  {| nodes := ns; lists := lists s; thr := thr s; uaf := uaf s; crash := crash s;
     linbad := linbad s; embad := embad s |}.
Definition with_lists (s : st) (ls : list lrec) : st :=
  {| nodes := nodes s; lists := ls; thr := thr s; uaf := uaf s; crash := crash s;
     linbad := linbad s; embad := embad s |}.
Definition with_thr (s : st) (ts : list thread) : st :=
  {| nodes := nodes s; lists := lists s; thr := ts; uaf := uaf s; crash := crash s;
     linbad := linbad s; embad := embad s |}.
Definition with_uaf (s : st) (b : bool) : st :=
  {| nodes := nodes s; lists := lists s; thr := thr s; uaf := b; crash := crash s;
     linbad := linbad s; embad := embad s |}.
Definition with_crash (s : st) (b : bool) : st :=
  {| nodes := nodes s; lists := lists s; thr := thr s; uaf := uaf s; crash := b;
     linbad := linbad s; embad := embad s |}.
Definition with_linbad (s : st) (b : bool) : st :=
  {| nodes := nodes s; lists := lists s; thr := thr s; uaf := uaf s; crash := crash s;
     linbad := b; embad := embad s |}.
Definition with_embad (s : st) (b : bool) : st :=
  {| nodes := nodes s; lists := lists s; thr := thr s; uaf := uaf s; crash := crash s;
     linbad := linbad s; embad := b |}.

Definition upd_node (s : st) (n : nat) (f : nrec -> nrec) : st :=
  with_nodes s (set_nth n (f (node s n)) (nodes s)).
Definition upd_list (s : st) (l : nat) (f : lrec -> lrec) : st :=
  with_lists s (set_nth l (f (lst s l)) (lists s)).

Definition nr_self (v : option link) (r : nrec) : nrec :=
  {| n_self := v; n_rest := n_rest r; n_lock := n_lock r; n_used := n_used r; n_freed := n_freed r |}.
Definition nr_rest (v : ptr) (r : nrec) : nrec :=
  {| n_self := n_self r; n_rest := v; n_lock := n_lock r; n_used := n_used r; n_freed := n_freed r |}.
Definition nr_lock (v : option nat) (r : nrec) : nrec :=
  {| n_self := n_self r; n_rest := n_rest r; n_lock := v; n_used := n_used r; n_freed := n_freed r |}.
Definition nr_used (r : nrec) : nrec :=
  {| n_self := n_self r; n_rest := n_rest r; n_lock := n_lock r; n_used := true; n_freed := n_freed r |}.
Definition nr_freed (r : nrec) : nrec :=
  {| n_self := n_self r; n_rest := n_rest r; n_lock := n_lock r; n_used := n_used r; n_freed := true |}.

Definition lr_head (v : ptr) (r : lrec) : lrec :=
  {| l_head := v; l_lock := l_lock r; l_sself := l_sself r; l_lself := l_lself r;
     l_abs := l_abs r; l_alatch := l_alatch r |}.
Definition lr_lock (v : option nat) (r : lrec) : lrec :=
  {| l_head := l_head r; l_lock := v; l_sself := l_sself r; l_lself := l_lself r;
     l_abs := l_abs r; l_alatch := l_alatch r |}.
Definition lr_sself (v : option link) (r : lrec) : lrec :=
  {| l_head := l_head r; l_lock := l_lock r; l_sself := v; l_lself := l_lself r;
     l_abs := l_abs r; l_alatch := l_alatch r |}.
Definition lr_lself (v : option link) (r : lrec) : lrec :=
  {| l_head := l_head r; l_lock := l_lock r; l_sself := l_sself r; l_lself := v;
     l_abs := l_abs r; l_alatch := l_alatch r |}.
Definition lr_abs (v : list nat) (r : lrec) : lrec :=
  {| l_head := l_head r; l_lock := l_lock r; l_sself := l_sself r; l_lself := l_lself r;
     l_abs := v; l_alatch := l_alatch r |}.
Definition lr_alatch (v : bool) (r : lrec) : lrec :=
  {| l_head := l_head r; l_lock := l_lock r; l_sself := l_sself r; l_lself := l_lself r;
     l_abs := l_abs r; l_alatch := v |}.

(* ---- memory accessors ---- *)
Definition link_val (s : st) (k : link) : ptr :=
  match k with LHead l => l_head (lst s l) | LRest n => n_rest (node s n) end.
Definition link_lock (s : st) (k : link) : option nat :=
  match k with LHead l => l_lock (lst s l) | LRest n => n_lock (node s n) end.
Definition is_locked (s : st) (k : link) : bool :=
  match link_lock s k with Some _ => true | None => false end.
Definition set_link_val (s : st) (k : link) (v : ptr) : st :=
  match k with LHead l => upd_list s l (lr_head v) | LRest n => upd_node s n (nr_rest v) end.
Definition set_link_lock (s : st) (k : link) (o : option nat) : st :=
  match k with LHead l => upd_list s l (lr_lock o) | LRest n => upd_node s n (nr_lock o) end.
(* unlock(k, v): value and lock bit in one store *)
Definition unlock (s : st) (k : link) (v : ptr) : st := set_link_lock (set_link_val s k v) k None.

Definition get_self (s : st) (x : ptr) : option link :=
  match x with
  | PNode n => n_self (node s n)
  | PSent l => l_sself (lst s l)
  | PLatch l => l_lself (lst s l)
  | PNull => None
  end.
Definition set_self (s : st) (x : ptr) (v : option link) : st :=
  match x with
  | PNode n => upd_node s n (nr_self v)
  | PSent l => upd_list s l (lr_sself v)
  | PLatch l => upd_list s l (lr_lself v)
  | PNull => s
  end.

Definition is_sentinel (l : nat) (p : ptr) : bool :=
  match p with PSent x => Nat.eqb x l | PLatch x => Nat.eqb x l | _ => false end.

(* ---- lifetime ghost ---- *)
(* thread working for item [own] touches the storage of node m *)
Definition touch_node (own : option nat) (m : nat) (s : st) : st :=
  if n_freed (node s m) then
    match own with
    | Some a => if Nat.eqb a m then s else with_uaf s true
    | None => with_uaf s true
    end
  else s.
Definition touch_link (own : option nat) (k : link) (s : st) : st :=
  match k with LRest m => touch_node own m s | LHead _ => s end.
Definition touch_obj (own : option nat) (x : ptr) (s : st) : st :=
  match x with PNode m => touch_node own m s | _ => s end.

(* ---- the sequential specification (ghost) ---- *)
Fixpoint remove_nat (a : nat) (l : list nat) : list nat :=
  match l with
  | [] => []
  | x :: r => if Nat.eqb x a then r else x :: remove_nat a r
  end.
Fixpoint mem_nat (a : nat) (l : list nat) : bool :=
  match l with [] => false | x :: r => Nat.eqb x a || mem_nat a r end.

Definition abs (s : st) (l : nat) : list nat := l_abs (lst s l).
Definition set_abs (s : st) (l : nat) (v : list nat) : st := upd_list s l (lr_abs v).

Definition spec_push_back (b : nat) (s : st) : st * res := (set_abs s 0 (abs s 0 ++ [b]), RUnit).
Definition spec_push_front (b : nat) (s : st) : st * res :=
  if l_alatch (lst s 0) then (s, RBool false) else (set_abs s 0 (b :: abs s 0), RBool true).
Definition spec_pop (l : nat) (s : st) : st * res :=
  match abs s l with
  | [] => (s, RNone)
  | x :: r => (set_abs s l r, RNode x)
  end.
(* try_remove is list-agnostic in the code (it only follows the item's own pointers): the item
   is removed from whichever list holds it *)
Definition spec_remove (a : nat) (s : st) : st * res :=
  if existsb (fun r => mem_nat a (l_abs r)) (lists s)
  then (with_lists s (map (fun r => lr_abs (remove_nat a (l_abs r)) r) (lists s)), RBool true)
  else (s, RBool false).
Definition spec_latch_drain (t : nat) (s : st) : st * res :=
  if l_alatch (lst s 0) then (s, RUnit)
  else (upd_list (set_abs (set_abs s (S t) (abs s 0)) 0 []) 0 (lr_alatch true), RUnit).
Definition spec_unlatch (s : st) : st * res :=
  if l_alatch (lst s 0) then (upd_list s 0 (lr_alatch false), RUnit) else (s, RUnit).
Definition spec_is_latched (s : st) : st * res := (s, RBool (l_alatch (lst s 0))).

(* ---- threads ---- *)
Definition tnil : thread := {| prog := []; tpc := PIdle; t_lin := None |}.
Definition cur (s : st) (t : nat) : thread := nth t (thr s) tnil.
Definition set_thread (s : st) (t : nat) (th : thread) : st := with_thr s (set_nth t th (thr s)).
Definition set_pc (s : st) (t : nat) (p : pc) : st :=
  set_thread s t {| prog := prog (cur s t); tpc := p; t_lin := t_lin (cur s t) |}.
Definition set_prog (s : st) (t : nat) (r : list op) : st :=
  set_thread s t {| prog := r; tpc := tpc (cur s t); t_lin := t_lin (cur s t) |}.

(* ghost: thread t passes the linearisation point of its operation, specified by f *)
Definition lin (s : st) (t : nat) (f : st -> st * res) : st :=
  let (s1, r) := f s in
  let th := cur s1 t in
  let s2 := set_thread s1 t {| prog := prog th; tpc := tpc th; t_lin := Some r |} in
  match t_lin th with Some _ => with_linbad s2 true | None => s2 end.

(* the running operation of t returns r *)
Definition ret (s : st) (t : nat) (r : res) : st :=
  let th := cur s t in
  let s1 := set_thread s t {| prog := prog th; tpc := PIdle; t_lin := None |} in
  match t_lin th with
  | Some r' => if res_eqb r r' then s1 else with_linbad s1 true
  | None => with_linbad s1 true
  end.

Definition holder_pc (s : st) (k : link) : pc :=
  match link_lock s k with Some u => tpc (cur s u) | None => PIdle end.

(* the guarantee of empty() on the shared list *)
Definition empty_ok (s : st) (b : bool) : bool :=
  if b then
    match abs s 0 with
    | [] => true
    | _ => match holder_pc s (LHead 0) with
           | PB4 _ (LHead 0) => true
           | PF4 _ | PF5 _ => true
           | _ => false
           end
    end
  else
    match abs s 0 with
    | _ :: _ => true
    | [] => match holder_pc s (LHead 0) with
            | PP5 0 _ _ => true
            | PR5 _ (LHead 0) _ => true
            | PL8 _ | PL9 => true
            | PF4 _ | PF5 _ => true
            | _ => false
            end
    end.

Definition mon_of (c : kont) : ptr :=
  match c with KPush _ => PSent 0 | KRem a => PNode a | KDrain _ => PSent 0 end.
Definition own_k (c : kont) : option nat :=
  match c with KPush b => Some b | KRem a => Some a | KDrain _ => None end.
Definition fail_pc (c : kont) : pc :=
  match c with KPush b => PB1 b | KRem a => PR0 a | KDrain h => PL2 h end.
Definition succ_pc (c : kont) (k : link) (v : ptr) : pc :=
  match c with KPush b => PB2 b k | KRem a => PR1 a k v | KDrain h => PL3 h k end.

(* blocking lock(k) by thread t: Some (value, state with the lock held) when k is unlocked.
   A link outside the memory (wild pointer; never produced, the initial links being valid) cannot
   be locked: no step. *)
Definition valid_link (s : st) (k : link) : bool :=
  match k with LHead l => Nat.ltb l (length (lists s)) | LRest n => Nat.ltb n (length (nodes s)) end.
Definition acquire (s : st) (t : nat) (k : link) : option (ptr * st) :=
  if valid_link s k then
    match link_lock s k with
    | Some _ => None
    | None => Some (link_val s k, set_link_lock s k (Some t))
    end
  else None.

(* try_remove a: head_ptr = item.self.load(acquire)            [atomic_intrusive_list.cpp:188-191] *)
Definition do_pr0 (s : st) (t : nat) (a : nat) : st * list ev :=
  let v := n_self (node s a) in
  match v with
  | None => (ret (lin s t (spec_remove a)) t (RBool false), [ELdSelf (PNode a) None; ERet (RBool false)])
  | Some k => (set_pc s t (PT0 (KRem a) k), [ELdSelf (PNode a) v])
  end.

Definition valid_node (s : st) (n : nat) : bool := Nat.ltb n (length (nodes s)).
Definition fresh (s : st) (b : nat) : bool := valid_node s b && negb (n_used (node s b)).

(* first access of operation o by thread t (prog already advanced) *)
Definition start (s : st) (t : nat) (o : op) : option (st * list ev) :=
  match o with
  (* :137-142  item.rest.store(&sentinel_, relaxed) *)
  | OPushBack b =>
      if fresh s b then
        Some (set_pc (upd_node (upd_node s b nr_used) b (nr_rest (PSent 0))) t (PB1 b),
              [EStLink (LRest b) (PSent 0)])
      else Some (s, [ESkip])
  (* :272-278  lock(head_); latched: answer false *)
  | OPushFront b =>
      if fresh s b then
        match acquire s t (LHead 0) with
        | None => None
        | Some (v, s1) =>
            if ptr_eqb v (PLatch 0)
            then Some (set_pc (lin s1 t (spec_push_front b)) t (PF1 v), [EAcq (LHead 0) v])
            else Some (set_pc (upd_node s1 b nr_used) t (PF2 b v), [EAcq (LHead 0) v])
        end
      else Some (s, [ESkip])
  (* :163-169  lock(head_) *)
  | OPop loc =>
      let l := if loc then S t else 0 in
      match acquire s t (LHead l) with
      | None => None
      | Some (v, s1) =>
          if is_sentinel l v
          then Some (set_pc (lin s1 t (spec_pop l)) t (PP1 l v), [EAcq (LHead l) v])
          else match v with
               | PNode a => Some (set_pc s1 t (PP2 l a), [EAcq (LHead l) v])
               | _ => Some (with_crash (set_pc s1 t (PCrash [LHead l])) true, [EAcq (LHead l) v; ECrash])
               end
      end
  | ORemove a =>
      if valid_node s a then Some (do_pr0 s t a) else Some (s, [ESkip])
  (* :298-314  UNIFEX_ASSERT(target.empty_impl()); lock(head_) *)
  | OLatchDrain =>
      if ptr_eqb (l_head (lst s (S t))) (PSent (S t)) then
        match acquire s t (LHead 0) with
        | None => None
        | Some (v, s1) =>
            if ptr_eqb v (PLatch 0)
            then Some (set_pc (lin s1 t (spec_latch_drain t)) t (PL1 v), [EAcq (LHead 0) v])
            else if ptr_eqb v (PSent 0)
            then Some (set_pc s1 t PLe1, [EAcq (LHead 0) v])
            else Some (set_pc s1 t (PL2 v), [EAcq (LHead 0) v])
        end
      else Some (s, [ESkip])
  (* :345-354 *)
  | OUnlatch =>
      match acquire s t (LHead 0) with
      | None => None
      | Some (v, s1) =>
          if ptr_eqb v (PLatch 0)
          then Some (set_pc s1 t PU1, [EAcq (LHead 0) v])
          else Some (set_pc (lin s1 t spec_unlatch) t (PU4 v), [EAcq (LHead 0) v])
      end
  (* :361-365  head_.load(acquire), lock bit stripped *)
  | OIsLatched =>
      let v := l_head (lst s 0) in
      let r := RBool (ptr_eqb v (PLatch 0)) in
      Some (ret (lin s t spec_is_latched) t r, [ELdLink (LHead 0) v (is_locked s (LHead 0)); ERet r])
  (* atomic_intrusive_list.hpp:120-123  head_.load(relaxed), lock bit stripped *)
  | OEmpty =>
      let v := l_head (lst s 0) in
      let b := is_sentinel 0 v in
      let s1 := if empty_ok s b then s else with_embad s true in
      Some (s1, [ELdLink (LHead 0) v (is_locked s (LHead 0)); ERet (RBool b)])
  end.

Definition step (t : nat) (s : st) : option (st * list ev) :=
  match nth_error (thr s) t with
  | None => None
  | Some th =>
    match tpc th with
    | PIdle =>
        match prog th with
        | [] => None
        | o :: r => start (set_prog s t r) t o
        end
    | PCrash _ => None
    (* ---------------- push_back ---------------- *)
    (* :145  pred_link = sentinel_.self.load(acquire); a null pred_link is dereferenced at :148 *)
    | PB1 b =>
        match l_sself (lst s 0) with
        | None => Some (with_crash (set_pc s t (PCrash [])) true, [ELdSelf (PSent 0) None; ECrash])
        | Some k => Some (set_pc s t (PT0 (KPush b) k), [ELdSelf (PSent 0) (Some k)])
        end
    (* :153 *)
    | PB2 b k => Some (set_pc (upd_node s b (nr_self (Some k))) t (PB3 b k), [EStSelf (PNode b) (Some k)])
    (* :154  linearisation point *)
    | PB3 b k =>
        Some (set_pc (lin (set_self s (PSent 0) (Some (LRest b))) t (spec_push_back b)) t (PB4 b k),
              [EStSelf (PSent 0) (Some (LRest b))])
    (* :156-157 *)
    | PB4 b k =>
        Some (ret (touch_link (Some b) k (unlock s k (PNode b))) t RUnit, [ERel k (PNode b); ERet RUnit])
    (* ---------------- try_lock_checking ---------------- *)
    (* :60-63 *)
    | PT0 c k =>
        let v := get_self s (mon_of c) in
        let s1 := touch_obj (own_k c) (mon_of c) s in
        Some (set_pc s1 t (if olink_eqb v (Some k) then PT1 c k else fail_pc c), [ELdSelf (mon_of c) v])
    (* :66 / :73 *)
    | PT1 c k =>
        let v := link_val s k in
        let lk := is_locked s k in
        let s1 := touch_link (own_k c) k s in
        Some (set_pc s1 t (if lk then PT2 c k else PT3 c k v), [ELdLink k v lk])
    (* :69-72 *)
    | PT2 c k =>
        let v := get_self s (mon_of c) in
        let s1 := touch_obj (own_k c) (mon_of c) s in
        Some (set_pc s1 t (if olink_eqb v (Some k) then PT1 c k else fail_pc c), [ELdSelf (mon_of c) v])
    (* :80-85 *)
    | PT3 c k v0 =>
        let v := get_self s (mon_of c) in
        let s1 := touch_obj (own_k c) (mon_of c) s in
        Some (set_pc s1 t (if olink_eqb v (Some k) then PT4 c k v0 else fail_pc c), [ELdSelf (mon_of c) v])
    (* :87-94  on failure `val` holds the word that was seen *)
    | PT4 c k v0 =>
        let v := link_val s k in
        let lk := is_locked s k in
        let s1 := touch_link (own_k c) k s in
        if valid_link s k && negb lk && ptr_eqb v v0
        then Some (set_pc (set_link_lock s1 k (Some t)) t (succ_pc c k v0), [ECas k v0 true v0 false])
        else Some (set_pc s1 t (if lk then PT2 c k else PT3 c k v), [ECas k v0 false v lk])
    (* ---------------- pop_front ---------------- *)
    (* :166-169 *)
    | PP1 l v => Some (ret (unlock s (LHead l) v) t RNone, [ERel (LHead l) v; ERet RNone])
    (* :171 *)
    | PP2 l a =>
        match acquire s t (LRest a) with
        | None => None
        | Some (rv, s1) => Some (set_pc (touch_node None a s1) t (PP3 l a rv), [EAcq (LRest a) rv])
        end
    (* :175 *)
    | PP3 l a rv =>
        Some (set_pc (touch_obj None rv (set_self s rv (Some (LHead l)))) t (PP4 l a rv),
              [EStSelf rv (Some (LHead l))])
    (* :176  linearisation point *)
    | PP4 l a rv =>
        Some (set_pc (lin (touch_node None a (upd_node s a (nr_self None))) t (spec_pop l)) t (PP5 l a rv),
              [EStSelf (PNode a) None])
    (* :178 *)
    | PP5 l a rv => Some (set_pc (unlock s (LHead l) rv) t (PP6 a), [ERel (LHead l) rv])
    (* :179-180  the caller owns the node from here *)
    | PP6 a =>
        Some (ret (upd_node (touch_node None a (unlock s (LRest a) PNull)) a nr_freed) t (RNode a),
              [ERel (LRest a) PNull; ERet (RNode a)])
    (* ---------------- try_remove ---------------- *)
    | PR0 a => Some (do_pr0 s t a)
    (* :198-205 *)
    | PR1 a k v =>
        let c := n_self (node s a) in
        if olink_eqb c (Some k)
        then Some (set_pc s t (PR2 a k), [ELdSelf (PNode a) c])
        else match c with
             | None => Some (set_pc (lin s t (spec_remove a)) t (PR1u a k v true), [ELdSelf (PNode a) c])
             | Some _ => Some (set_pc s t (PR1u a k v false), [ELdSelf (PNode a) c])
             end
    | PR1u a k v z =>
        let s1 := touch_link (Some a) k (unlock s k v) in
        if z then Some (ret s1 t (RBool false), [ERel k v; ERet (RBool false)])
        else Some (set_pc s1 t (PR0 a), [ERel k v])
    (* :208 *)
    | PR2 a k =>
        match acquire s t (LRest a) with
        | None => None
        | Some (rv, s1) => Some (set_pc s1 t (PR3 a k rv), [EAcq (LRest a) rv])
        end
    (* :212 *)
    | PR3 a k rv =>
        Some (set_pc (touch_obj (Some a) rv (set_self s rv (Some k))) t (PR4 a k rv), [EStSelf rv (Some k)])
    (* :213  linearisation point *)
    | PR4 a k rv =>
        Some (set_pc (lin (upd_node s a (nr_self None)) t (spec_remove a)) t (PR5 a k rv),
              [EStSelf (PNode a) None])
    (* :215 *)
    | PR5 a k rv => Some (set_pc (touch_link (Some a) k (unlock s k rv)) t (PR6 a), [ERel k rv])
    (* :216-217  the caller owns the node from here *)
    | PR6 a =>
        Some (ret (upd_node (unlock s (LRest a) PNull) a nr_freed) t (RBool true),
              [ERel (LRest a) PNull; ERet (RBool true)])
    (* ---------------- push_front_unless_latched ---------------- *)
    (* :275-278 *)
    | PF1 v => Some (ret (unlock s (LHead 0) v) t (RBool false), [ERel (LHead 0) v; ERet (RBool false)])
    (* :281 *)
    | PF2 b v => Some (set_pc (upd_node s b (nr_rest v)) t (PF3 b v), [EStLink (LRest b) v])
    (* :282 *)
    | PF3 b v =>
        Some (set_pc (touch_obj (Some b) v (set_self s v (Some (LRest b)))) t (PF4 b),
              [EStSelf v (Some (LRest b))])
    (* :283 *)
    | PF4 b => Some (set_pc (upd_node s b (nr_self (Some (LHead 0)))) t (PF5 b), [EStSelf (PNode b) (Some (LHead 0))])
    (* :285-286  linearisation point *)
    | PF5 b =>
        Some (ret (unlock (lin s t (spec_push_front b)) (LHead 0) (PNode b)) t (RBool true),
              [ERel (LHead 0) (PNode b); ERet (RBool true)])
    (* ---------------- latch_and_drain ---------------- *)
    (* :304-307 *)
    | PL1 v => Some (ret (unlock s (LHead 0) v) t RUnit, [ERel (LHead 0) v; ERet RUnit])
    (* :309-313 *)
    | PLe1 => Some (set_pc (set_self s (PSent 0) None) t PLe2, [EStSelf (PSent 0) None])
    | PLe2 => Some (set_pc (set_self s (PLatch 0) (Some (LHead 0))) t PLe3, [EStSelf (PLatch 0) (Some (LHead 0))])
    | PLe3 =>
        Some (ret (unlock (lin s t (spec_latch_drain t)) (LHead 0) (PLatch 0)) t RUnit,
              [ERel (LHead 0) (PLatch 0); ERet RUnit])
    (* :319-324 *)
    | PL2 h =>
        match l_sself (lst s 0) with
        | None => Some (with_crash (set_pc s t (PCrash [LHead 0])) true, [ELdSelf (PSent 0) None; ECrash])
        | Some k => Some (set_pc s t (PT0 (KDrain h) k), [ELdSelf (PSent 0) (Some k)])
        end
    (* :327-335 *)
    | PL3 h k => Some (set_pc (set_self s (PSent 0) None) t (PL4 h k), [EStSelf (PSent 0) None])
    | PL4 h k => Some (set_pc (set_self s (PLatch 0) (Some (LHead 0))) t (PL5 h k), [EStSelf (PLatch 0) (Some (LHead 0))])
    | PL5 h k => Some (set_pc (set_self s (PSent (S t)) (Some k)) t (PL6 h k), [EStSelf (PSent (S t)) (Some k)])
    | PL6 h k => Some (set_pc (set_link_val s (LHead (S t)) h) t (PL7 h k), [EStLink (LHead (S t)) h])
    | PL7 h k =>
        Some (set_pc (touch_obj None h (set_self s h (Some (LHead (S t))))) t (PL8 k),
              [EStSelf h (Some (LHead (S t)))])
    | PL8 k => Some (set_pc (touch_link None k (unlock s k (PSent (S t)))) t PL9, [ERel k (PSent (S t))])
    | PL9 =>
        Some (ret (unlock (lin s t (spec_latch_drain t)) (LHead 0) (PLatch 0)) t RUnit,
              [ERel (LHead 0) (PLatch 0); ERet RUnit])
    (* ---------------- unlatch ---------------- *)
    (* :348-351 *)
    | PU1 => Some (set_pc (set_self s (PLatch 0) None) t PU2, [EStSelf (PLatch 0) None])
    | PU2 => Some (set_pc (set_self s (PSent 0) (Some (LHead 0))) t PU3, [EStSelf (PSent 0) (Some (LHead 0))])
    | PU3 =>
        Some (ret (unlock (lin s t spec_unlatch) (LHead 0) (PSent 0)) t RUnit,
              [ERel (LHead 0) (PSent 0); ERet RUnit])
    (* :353 *)
    | PU4 v => Some (ret (unlock s (LHead 0) v) t RUnit, [ERel (LHead 0) v; ERet RUnit])
    end
  end.

(* ---- initial state: nn nodes, one private target list per thread ---- *)
Definition linit (l : nat) : lrec :=
  {| l_head := PSent l; l_lock := None; l_sself := Some (LHead l); l_lself := None;
     l_abs := []; l_alatch := false |}.
Definition init (nn : nat) (progs : list (list op)) : st :=
  {| nodes := repeat nnil nn;
     lists := map linit (seq 0 (S (length progs)));
     thr := map (fun p => {| prog := p; tpc := PIdle; t_lin := None |}) progs;
     uaf := false; crash := false; linbad := false; embad := false |}.

Definition th_fin (th : thread) : bool :=
  match prog th, tpc th with [], PIdle => true | _, _ => false end.
Definition quiescent (s : st) : bool := forallb th_fin (thr s).

(* the pointer chain of list l as the memory has it (for reports; fuel = number of nodes + 1) *)
Fixpoint walk (s : st) (fuel : nat) (p : ptr) : list nat :=
  match fuel, p with
  | S f, PNode n => n :: walk s f (n_rest (node s n))
  | _, _ => []
  end.
Definition chain_of (s : st) (l : nat) : list nat := walk s (S (length (nodes s))) (l_head (lst s l)).

End AtomicList.
