(* Proofs about the AtomicList model (AtomicListDefs.v).
   Part A  decidable equality, complete-reachability certificates (per instance).
   Part B  the state predicates: structure (1), accounting (2,3), refinement flags (4), progress (6).
   Part C  instances and their certificates; the theorems for ALL schedules of those instances.
   Part D  refutations: access after hand-back (5), empty() not linearisable, misuse crash.
   Part E  parametric facts (all programs, all sizes, all schedules): erasure of the
           specification ghosts, lock discipline.
   See the summary at the end of the file for what is parametric and what is per instance. *)
From Coq Require Import List Bool Arith Lia PArith FMapPositive Permutation.
From V Require Import Base.Sched Proto.AtomicListDefs.
Import ListNotations.
Import AtomicList.

(* ------------------------------------------------------------------------------------------ *)
(* Part A: equality, certificates                                                               *)

Definition link_eq_dec (a b : link) : {a = b} + {a <> b}. Proof. decide equality; apply Nat.eq_dec. Defined.
Definition ptr_eq_dec (a b : ptr) : {a = b} + {a <> b}. Proof. decide equality; apply Nat.eq_dec. Defined.
Definition op_eq_dec (a b : op) : {a = b} + {a <> b}.
Proof. decide equality; try apply Nat.eq_dec; apply Bool.bool_dec. Defined.
Definition res_eq_dec (a b : res) : {a = b} + {a <> b}.
Proof. decide equality; try apply Nat.eq_dec; apply Bool.bool_dec. Defined.
Definition kont_eq_dec (a b : kont) : {a = b} + {a <> b}.
Proof. decide equality; try apply Nat.eq_dec; apply ptr_eq_dec. Defined.
Definition pc_eq_dec (a b : pc) : {a = b} + {a <> b}.
Proof.
  decide equality; try apply Nat.eq_dec; try apply link_eq_dec; try apply ptr_eq_dec;
    try apply kont_eq_dec; try apply (list_eq_dec link_eq_dec); apply Bool.bool_dec.
Defined.
Definition olink_eq_dec (a b : option link) : {a = b} + {a <> b}.
Proof. decide equality; apply link_eq_dec. Defined.
Definition onat_eq_dec (a b : option nat) : {a = b} + {a <> b}.
Proof. decide equality; apply Nat.eq_dec. Defined.
Definition nrec_eq_dec (a b : nrec) : {a = b} + {a <> b}.
Proof. decide equality; try apply Bool.bool_dec; try apply onat_eq_dec; try apply ptr_eq_dec; apply olink_eq_dec. Defined.
Definition lrec_eq_dec (a b : lrec) : {a = b} + {a <> b}.
Proof.
  decide equality; try apply Bool.bool_dec; try apply onat_eq_dec; try apply ptr_eq_dec;
    try apply olink_eq_dec; apply (list_eq_dec Nat.eq_dec).
Defined.
Definition ores_eq_dec (a b : option res) : {a = b} + {a <> b}.
Proof. decide equality; apply res_eq_dec. Defined.
Definition thread_eq_dec (a b : thread) : {a = b} + {a <> b}.
Proof. decide equality; try apply ores_eq_dec; try apply pc_eq_dec; apply (list_eq_dec op_eq_dec). Defined.
Definition st_eq_dec (a b : st) : {a = b} + {a <> b}.
Proof.
  decide equality; try apply Bool.bool_dec;
    [apply (list_eq_dec thread_eq_dec) | apply (list_eq_dec lrec_eq_dec) | apply (list_eq_dec nrec_eq_dec)].
Defined.
Definition st_eqb (a b : st) : bool := if st_eq_dec a b then true else false.
Lemma st_eqb_eq a b : st_eqb a b = true -> a = b.
Proof. unfold st_eqb. destruct (st_eq_dec a b); [auto|discriminate]. Qed.

(* a hash into positive (no injectivity needed: membership compares the stored state) *)
Fixpoint h_nat (n : nat) (p : positive) : positive :=
  match n with O => xO p | S m => xI (h_nat m p) end.
Definition h_link (k : link) p := match k with LHead l => h_nat 0 (h_nat l p) | LRest n => h_nat 1 (h_nat n p) end.
Definition h_ptr (x : ptr) p :=
  match x with PNull => h_nat 0 p | PNode n => h_nat 1 (h_nat n p) | PSent l => h_nat 2 (h_nat l p) | PLatch l => h_nat 3 (h_nat l p) end.
Definition h_bool (b : bool) p := if b then xI p else xO p.
Definition h_opt {A} (h : A -> positive -> positive) (o : option A) p :=
  match o with None => xO p | Some a => xI (h a p) end.
Fixpoint h_list {A} (h : A -> positive -> positive) (l : list A) p :=
  match l with [] => xO p | a :: r => xI (h a (h_list h r p)) end.
Definition h_op (o : op) p :=
  match o with
  | OPushBack b => h_nat 0 (h_nat b p) | OPushFront b => h_nat 1 (h_nat b p)
  | OPop c => h_nat 2 (h_bool c p) | ORemove a => h_nat 3 (h_nat a p)
  | OLatchDrain => h_nat 4 p | OUnlatch => h_nat 5 p | OIsLatched => h_nat 6 p | OEmpty => h_nat 7 p
  end.
Definition h_res (r : res) p :=
  match r with RUnit => h_nat 0 p | RNone => h_nat 1 p | RNode n => h_nat 2 (h_nat n p) | RBool b => h_nat 3 (h_bool b p) end.
Definition h_kont (c : kont) p :=
  match c with KPush b => h_nat 0 (h_nat b p) | KRem a => h_nat 1 (h_nat a p) | KDrain h => h_nat 2 (h_ptr h p) end.
Definition h_pc (c : pc) (p : positive) : positive :=
  match c with
  | PIdle => h_nat 0 p | PCrash hl => h_nat 1 (h_list h_link hl p)
  | PB1 b => h_nat 2 (h_nat b p) | PB2 b k => h_nat 3 (h_nat b (h_link k p))
  | PB3 b k => h_nat 4 (h_nat b (h_link k p)) | PB4 b k => h_nat 5 (h_nat b (h_link k p))
  | PT0 c k => h_nat 6 (h_kont c (h_link k p)) | PT1 c k => h_nat 7 (h_kont c (h_link k p))
  | PT2 c k => h_nat 8 (h_kont c (h_link k p)) | PT3 c k v => h_nat 9 (h_kont c (h_link k (h_ptr v p)))
  | PT4 c k v => h_nat 10 (h_kont c (h_link k (h_ptr v p)))
  | PP1 l v => h_nat 11 (h_nat l (h_ptr v p)) | PP2 l a => h_nat 12 (h_nat l (h_nat a p))
  | PP3 l a v => h_nat 13 (h_nat l (h_nat a (h_ptr v p))) | PP4 l a v => h_nat 14 (h_nat l (h_nat a (h_ptr v p)))
  | PP5 l a v => h_nat 15 (h_nat l (h_nat a (h_ptr v p))) | PP6 a => h_nat 16 (h_nat a p)
  | PR0 a => h_nat 17 (h_nat a p) | PR1 a k v => h_nat 18 (h_nat a (h_link k (h_ptr v p)))
  | PR1u a k v z => h_nat 19 (h_nat a (h_link k (h_ptr v (h_bool z p))))
  | PR2 a k => h_nat 20 (h_nat a (h_link k p)) | PR3 a k v => h_nat 21 (h_nat a (h_link k (h_ptr v p)))
  | PR4 a k v => h_nat 22 (h_nat a (h_link k (h_ptr v p))) | PR5 a k v => h_nat 23 (h_nat a (h_link k (h_ptr v p)))
  | PR6 a => h_nat 24 (h_nat a p)
  | PF1 v => h_nat 25 (h_ptr v p) | PF2 b v => h_nat 26 (h_nat b (h_ptr v p)) | PF3 b v => h_nat 27 (h_nat b (h_ptr v p))
  | PF4 b => h_nat 28 (h_nat b p) | PF5 b => h_nat 29 (h_nat b p)
  | PL1 v => h_nat 30 (h_ptr v p) | PLe1 => h_nat 31 p | PLe2 => h_nat 32 p | PLe3 => h_nat 33 p
  | PL2 h => h_nat 34 (h_ptr h p) | PL3 h k => h_nat 35 (h_ptr h (h_link k p)) | PL4 h k => h_nat 36 (h_ptr h (h_link k p))
  | PL5 h k => h_nat 37 (h_ptr h (h_link k p)) | PL6 h k => h_nat 38 (h_ptr h (h_link k p))
  | PL7 h k => h_nat 39 (h_ptr h (h_link k p)) | PL8 k => h_nat 40 (h_link k p) | PL9 => h_nat 41 p
  | PU1 => h_nat 42 p | PU2 => h_nat 43 p | PU3 => h_nat 44 p | PU4 v => h_nat 45 (h_ptr v p)
  end.
Definition h_nrec (r : nrec) p :=
  h_opt h_link (n_self r) (h_ptr (n_rest r) (h_opt h_nat (n_lock r) (h_bool (n_used r) (h_bool (n_freed r) p)))).
Definition h_lrec (r : lrec) p :=
  h_ptr (l_head r) (h_opt h_nat (l_lock r) (h_opt h_link (l_sself r) (h_opt h_link (l_lself r)
    (h_list h_nat (l_abs r) (h_bool (l_alatch r) p))))).
Definition h_thread (t : thread) p := h_list h_op (prog t) (h_pc (tpc t) (h_opt h_res (t_lin t) p)).
Definition h_st (s : st) : positive :=
  h_list h_nrec (nodes s) (h_list h_lrec (lists s) (h_list h_thread (thr s)
    (h_bool (uaf s) (h_bool (crash s) (h_bool (linbad s) (h_bool (embad s) xH)))))).

Definition smap := PositiveMap.t st.
Definition memb (s : st) (m : smap) : bool :=
  match PositiveMap.find (h_st s) m with Some s' => st_eqb s s' | None => false end.

Definition succs (s : st) : list st :=
  flat_map (fun t => match step t s with Some (s', _) => [s'] | None => [] end) (seq 0 (length (thr s))).

Fixpoint explore (fuel : nat) (m : smap) (todo : list st) : smap * list st :=
  match fuel with
  | O => (m, todo)
  | S f =>
    match todo with
    | [] => (m, [])
    | s :: r =>
      let k := h_st s in
      match PositiveMap.find k m with
      | Some _ => explore f m r
      | None => explore f (PositiveMap.add k s m) (succs s ++ r)
      end
    end
  end.
Fixpoint explore_n (n : nat) (chunk : nat) (x : smap * list st) : smap :=
  match n with
  | O => fst x
  | S n' => match snd x with [] => fst x | _ => explore_n n' chunk (explore chunk (fst x) (snd x)) end
  end.
Definition reach (s0 : st) : smap := explore_n 4000 4000 (PositiveMap.empty st, [s0]).
Definition states (m : smap) : list st := map snd (PositiveMap.elements m).
Definition closed (m : smap) : bool := forallb (fun s => forallb (fun s' => memb s' m) (succs s)) (states m).

Lemma memb_In s m : memb s m = true -> In s (states m).
Proof.
  unfold memb, states. destruct (PositiveMap.find (h_st s) m) as [s'|] eqn:E; [|discriminate].
  intros H. apply st_eqb_eq in H. subst s'.
  apply PositiveMap.elements_correct in E. apply (in_map snd) in E. exact E.
Qed.

Lemma step_tid t s : length (thr s) <= t -> step t s = None.
Proof.
  intros H. unfold step. apply nth_error_None in H. rewrite H. reflexivity.
Qed.

Lemma succs_step t s s' evs : step t s = Some (s', evs) -> In s' (succs s).
Proof.
  intros H. unfold succs. apply in_flat_map. exists t. split.
  - apply in_seq. split; [lia|]. simpl.
    destruct (le_lt_dec (length (thr s)) t) as [L|L]; [|exact L].
    rewrite (step_tid _ _ L) in H. discriminate.
  - rewrite H. left. reflexivity.
Qed.

Theorem reach_inv (m : smap) (s0 : st) :
  memb s0 m = true -> closed m = true ->
  forall sched tr, In (fst (run step sched (s0, tr))) (states m).
Proof.
  intros H0 Hc sched tr.
  apply (run_invariant_state st nat ev step (fun s => In s (states m))).
  - intros s t s' evs Hin Hs. unfold closed in Hc. rewrite forallb_forall in Hc.
    specialize (Hc s Hin). rewrite forallb_forall in Hc.
    apply memb_In. apply Hc. eapply succs_step; eauto.
  - simpl. apply memb_In. exact H0.
Qed.

(* certificate: the reachable set of s0 is closed, contains s0, and P holds on every member *)
Definition certify (s0 : st) (P : st -> bool) : bool :=
  let m := reach s0 in memb s0 m && closed m && forallb P (states m).

Theorem certify_sound s0 P :
  certify s0 P = true -> forall sched tr, P (fst (run step sched (s0, tr))) = true.
Proof.
  unfold certify. intros H sched tr.
  apply andb_true_iff in H. destruct H as [H HP]. apply andb_true_iff in H. destruct H as [H0 Hc].
  rewrite forallb_forall in HP. apply HP. apply reach_inv; assumption.
Qed.

(* ------------------------------------------------------------------------------------------ *)
(* Part B: the state predicates (executable)                                                    *)

(* links whose lock bit thread t holds at program point p *)
Definition held (t : nat) (p : pc) : list link :=
  match p with
  | PCrash hl => hl
  | PB2 _ k | PB3 _ k | PB4 _ k => [k]
  | PP1 l _ | PP2 l _ => [LHead l]
  | PP3 l a _ | PP4 l a _ | PP5 l a _ => [LHead l; LRest a]
  | PP6 a => [LRest a]
  | PR1 _ k _ | PR1u _ k _ _ | PR2 _ k => [k]
  | PR3 a k _ | PR4 a k _ | PR5 a k _ => [k; LRest a]
  | PR6 a => [LRest a]
  | PF1 _ | PF2 _ _ | PF3 _ _ | PF4 _ | PF5 _ => [LHead 0]
  | PL1 _ | PLe1 | PLe2 | PLe3 | PL2 _ | PL9 => [LHead 0]
  | PT0 (KDrain _) _ | PT1 (KDrain _) _ | PT2 (KDrain _) _ | PT3 (KDrain _) _ _ | PT4 (KDrain _) _ _ => [LHead 0]
  | PL3 _ k | PL4 _ k | PL5 _ k | PL6 _ k | PL7 _ k | PL8 k => [LHead 0; k]
  | PU1 | PU2 | PU3 | PU4 _ => [LHead 0]
  | _ => []
  end.

Definition all_links (s : st) : list link :=
  map LHead (seq 0 (length (lists s))) ++ map LRest (seq 0 (length (nodes s))).
Definition tids (s : st) : list nat := seq 0 (length (thr s)).
Definition mem_link (k : link) (l : list link) : bool := existsb (link_eqb k) l.

(* lock discipline: the holder recorded in a lock word is a thread whose program point holds that
   link, and every link a program point holds is locked by that thread (so two threads are never
   at program points that hold the same link) *)
Definition locks_ok (s : st) : bool :=
  forallb (fun k => match link_lock s k with
                    | Some u => Nat.ltb u (length (thr s)) && mem_link k (held u (tpc (cur s u)))
                    | None => true
                    end) (all_links s)
  && forallb (fun u => forallb (fun k => valid_link s k &&
                                         match link_lock s k with Some u' => Nat.eqb u u' | None => false end)
                               (held u (tpc (cur s u)))) (tids s).

(* the value a locked link is going to receive from its holder, once that is decided: from the
   linearising / claiming store on, the chain is read through these *)
Definition pend (s : st) (k : link) : option ptr :=
  match link_lock s k with
  | None => None
  | Some u =>
    match tpc (cur s u) with
    | PB4 b k' => if link_eqb k k' then Some (PNode b) else None
    | PP5 l a rv => if link_eqb k (LHead l) then Some rv else if link_eqb k (LRest a) then Some PNull else None
    | PP6 a => if link_eqb k (LRest a) then Some PNull else None
    | PR5 a k' rv => if link_eqb k k' then Some rv else if link_eqb k (LRest a) then Some PNull else None
    | PR6 a => if link_eqb k (LRest a) then Some PNull else None
    | PF4 b | PF5 b => if link_eqb k (LHead 0) then Some (PNode b) else None
    | PL8 k' => if link_eqb k k' then Some (PSent (S u)) else if link_eqb k (LHead 0) then Some (PLatch 0) else None
    | PL9 => if link_eqb k (LHead 0) then Some (PLatch 0) else None
    | _ => None
    end
  end.
(* the target list of a drain is private to the drainer until it stores first.self: its head
   word is written one step earlier (PL6) and is not yet part of the structure *)
Definition drain_private (s : st) (l : nat) : bool :=
  match l with
  | O => false
  | S u => match tpc (cur s u) with PL6 _ _ | PL7 _ _ => true | _ => false end
  end.
Definition eff (s : st) (k : link) : ptr :=
  match pend s k with
  | Some v => v
  | None => match k with
            | LHead (S u) => match tpc (cur s u) with PL7 _ _ => PSent (S u) | _ => link_val s k end
            | _ => link_val s k
            end
  end.

(* the chain of list l: nodes with the link holding each, and the terminal pointer *)
Fixpoint ewalk (s : st) (fuel : nat) (k : link) : list (link * nat) * ptr :=
  match fuel with
  | O => ([], PNull)
  | S f => match eff s k with
           | PNode n => let (c, e) := ewalk s f (LRest n) in ((k, n) :: c, e)
           | p => ([], p)
           end
  end.
Definition echain (s : st) (l : nat) := ewalk s (S (length (nodes s))) (LHead l).
Definition chain_nodes (s : st) (l : nat) : list nat := map snd (fst (echain s l)).
Definition tail_link (s : st) (l : nat) : link :=
  match rev (fst (echain s l)) with [] => LHead l | (_, n) :: _ => LRest n end.
Definition lids (s : st) : list nat := seq 0 (length (lists s)).
Definition all_chain_nodes (s : st) : list nat := flat_map (chain_nodes s) (lids s).

Fixpoint nodupb (l : list nat) : bool :=
  match l with [] => true | x :: r => negb (mem_nat x r) && nodupb r end.

(* (1) structure *)
Definition chain_ok (s : st) (l : nat) : bool :=
  let (c, e) := echain s l in
  (ptr_eqb e (PSent l) || (ptr_eqb e (PLatch l) && match c with [] => true | _ => false end))
  && forallb (fun kn => let n := snd kn in
                        Nat.ltb n (length (nodes s)) && n_used (node s n) && negb (n_freed (node s n))
                        && (olink_eqb (n_self (node s n)) (Some (fst kn)) || is_locked s (fst kn))) c
  && (if ptr_eqb e (PSent l)
      then olink_eqb (l_sself (lst s l)) (Some (tail_link s l)) || is_locked s (tail_link s l)
           || drain_private s l
      else true)
  && (if ptr_eqb e (PLatch l)
      then (olink_eqb (l_sself (lst s l)) None && olink_eqb (l_lself (lst s l)) (Some (LHead l)))
           || is_locked s (LHead l)
      else true).
Definition unlinked_ok (s : st) : bool :=
  forallb (fun n => mem_nat n (all_chain_nodes s) ||
                    match n_self (node s n) with None => true | Some k => is_locked s k end)
          (seq 0 (length (nodes s))).
Definition struct_ok (s : st) : bool :=
  forallb (chain_ok s) (lids s) && nodupb (all_chain_nodes s) && unlinked_ok s && locks_ok s.

(* (2,3) accounting: where a node that has been pushed is *)
Definition private_of (p : pc) : option nat :=      (* pushed by this thread, not yet in a chain *)
  match p with
  | PB1 b | PB2 b _ | PB3 b _ => Some b
  | PT0 (KPush b) _ | PT1 (KPush b) _ | PT2 (KPush b) _ | PT3 (KPush b) _ _ | PT4 (KPush b) _ _ => Some b
  | PF2 b _ | PF3 b _ => Some b
  | _ => None
  end.
Definition taken_of (p : pc) : option nat :=        (* unlinked by this thread, not yet returned *)
  match p with
  | PP5 _ a _ | PP6 a | PR5 a _ _ | PR6 a => Some a
  | _ => None
  end.
Definition count_nat (n : nat) (l : list nat) : nat := length (filter (Nat.eqb n) l).
Definition opt_list (o : option nat) : list nat := match o with Some x => [x] | None => [] end.
Definition where_count (s : st) (n : nat) : nat :=
  count_nat n (all_chain_nodes s)
  + count_nat n (flat_map (fun t => opt_list (private_of (tpc t))) (thr s))
  + count_nat n (flat_map (fun t => opt_list (taken_of (tpc t))) (thr s))
  + (if n_freed (node s n) then 1 else 0).
Definition account_ok (s : st) : bool :=
  forallb (fun n => Nat.eqb (where_count s n) (if n_used (node s n) then 1 else 0))
          (seq 0 (length (nodes s))).

(* (4) refinement flags; at quiescence the abstract state is the memory's *)
Definition quiet_ok (s : st) : bool :=
  if quiescent s then
    forallb (fun l => (if list_eq_dec Nat.eq_dec (chain_nodes s l) (l_abs (lst s l)) then true else false)
                      && Bool.eqb (l_alatch (lst s l)) (ptr_eqb (l_head (lst s l)) (PLatch l))
                      && match l_lock (lst s l) with None => true | Some _ => false end) (lids s)
  else true.
Definition refine_ok (s : st) : bool := negb (linbad s) && negb (embad s) && quiet_ok s.

(* (6) progress: a thread is waiting when it spins in try_lock_checking on a locked link whose
   monitored pointer still names it; some thread that is not waiting can move, unless all are done *)
Definition waiting (s : st) (t : nat) : bool :=
  match tpc (cur s t) with
  | PT1 c k | PT2 c k => is_locked s k && olink_eqb (get_self s (mon_of c)) (Some k)
  | _ => false
  end.
Definition progress_ok (s : st) : bool :=
  quiescent s ||
  existsb (fun t => negb (waiting s t) && match step t s with Some _ => true | None => false end) (tids s).

Definition safe_ok (s : st) : bool := negb (crash s).
Definition all_ok (s : st) : bool := struct_ok s && account_ok s && refine_ok s && progress_ok s && safe_ok s.
Definition nouaf_ok (s : st) : bool := negb (uaf s).

(* ------------------------------------------------------------------------------------------ *)
(* Part C: instances.  Each is (number of nodes, programs); its complete reachable set is
   computed, proved closed under every thread's step, and all_ok is evaluated on every member.
   The theorems below hold for EVERY schedule (any length, any thread ids) of these instances;
   they are complete invariants of the instances, not of the protocol for all programs. *)
Definition B := OPushBack.
Definition F := OPushFront.
Definition R := ORemove.
Definition P := OPop false.
Definition Q := OPop true.
Definition D := OLatchDrain.
Definition U := OUnlatch.
Definition L := OIsLatched.
Definition E := OEmpty.

Definition instances : list (nat * list (list op)) :=
  [ (* the async_mutex profile *)
    (2, [[B 0]; [P]; [B 1]]);
    (2, [[B 0; B 1]; [P; P]; [E]]);
    (2, [[B 0]; [B 1]; [P; E; P]]);
    (2, [[B 0; B 1]; [R 0]; [P]]);
    (3, [[B 0; B 1]; [R 1; P]; [B 2; R 0]]);
    (3, [[B 0; B 1; B 2]; [R 1]; [P; P]]);
    (3, [[B 0; F 1]; [P; E]; [R 0; B 2]]);
    (3, [[B 0; B 1]; [P]; [R 1]; [B 2; E]]);
    (* the async_manual_reset_event profile *)
    (2, [[F 0]; [F 1]; [D; Q; Q]]);
    (2, [[F 0; F 1]; [D; Q; Q]; [R 0; L]]);
    (3, [[F 0; F 1]; [D; Q; Q; Q]; [R 0; U; F 2]]);
    (3, [[F 0; F 1; F 2]; [D; Q; Q]; [R 1; R 0]]);
    (3, [[F 0; F 1]; [R 0; R 1; E]; [D; Q; F 2]]);
    (3, [[F 0; F 1]; [D; Q; Q]; [R 1]; [F 2; L; E]]) ].

Definition inst_init (i : nat * list (list op)) : st := init (fst i) (snd i).

Lemma instances_certified : forallb (fun i => certify (inst_init i) all_ok) instances = true.
Proof. vm_cast_no_check (eq_refl true). Qed.

Lemma instance_all_ok i sched :
  In i instances -> all_ok (fst (run step sched (inst_init i, []))) = true.
Proof.
  intros Hi. pose proof instances_certified as H. rewrite forallb_forall in H.
  apply (certify_sound _ _ (H i Hi)).
Qed.

Section Instances.
  Variable i : nat * list (list op).
  Hypothesis Hi : In i instances.
  Variable sched : list nat.
  Let s := fst (run step sched (inst_init i, [])).

  Lemma all_ok_split :
    struct_ok s = true /\ account_ok s = true /\ refine_ok s = true /\ progress_ok s = true /\ safe_ok s = true.
  Proof.
    pose proof (instance_all_ok i sched Hi) as H. change (all_ok s = true) in H. unfold all_ok in H.
    do 4 (apply andb_true_iff in H; destruct H as [H ?]). repeat split; assumption.
  Qed.

  (* (1) structure: every list's chain (read through the stores already decided by the holders
     of locked links) ends in its own sentinel - or is empty and ends in the latch sentinel -,
     no node occurs twice in or across chains, every chained node is pushed and not handed back,
     x.self names the link holding x unless that link is locked, a node outside every chain has
     self = null unless the link it names is locked, and the lock words agree with the program
     points (so no link is held by two threads). *)
  Theorem structure_partial : struct_ok s = true.
  Proof. apply all_ok_split. Qed.

  (* (2,3) every pushed node is in exactly one place: one position of one chain, or in the hands
     of its pusher, or in the hands of the one pop_front / try_remove that unlinked it, or handed
     back - exactly once; a node never pushed is nowhere. *)
  Theorem accounting_partial : account_ok s = true.
  Proof. apply all_ok_split. Qed.

  (* (4) every operation passed exactly one linearisation point and returned what the sequential
     list specification returned there; empty() stayed within its guarantee; when all threads
     are done the abstract lists and latch are what the memory holds. *)
  Theorem refinement_partial : refine_ok s = true.
  Proof. apply all_ok_split. Qed.

  (* (6) unless every thread is done, some thread that is not spinning in try_lock_checking can
     take a step: no deadlock, and the spinners are waiting for a thread that can move. *)
  Theorem progress_partial : progress_ok s = true.
  Proof. apply all_ok_split. Qed.

  Theorem no_null_link_partial : crash s = false.
  Proof. destruct all_ok_split as (_ & _ & _ & _ & H). unfold safe_ok in H. now apply negb_true_iff in H. Qed.
End Instances.

(* Prop reading of the lock discipline *)
Lemma mem_link_In k l : mem_link k l = true -> In k l.
Proof.
  unfold mem_link. rewrite existsb_exists. intros (x & Hx & He).
  assert (k = x); [|subst; exact Hx].
  destruct k, x; simpl in He; try discriminate; apply Nat.eqb_eq in He; now subst.
Qed.

Lemma locks_ok_exclusive s t u k :
  locks_ok s = true -> t < length (thr s) -> u < length (thr s) ->
  In k (held t (tpc (cur s t))) -> In k (held u (tpc (cur s u))) -> t = u.
Proof.
  unfold locks_ok. intros H Ht Hu Hkt Hku. apply andb_true_iff in H. destruct H as [_ H].
  rewrite forallb_forall in H.
  assert (A : forall x, x < length (thr s) -> In k (held x (tpc (cur s x))) -> link_lock s k = Some x).
  { intros x Hx Hk. specialize (H x). rewrite forallb_forall in H.
    assert (In x (tids s)) as Hin by (apply in_seq; lia).
    specialize (H Hin k Hk). apply andb_true_iff in H. destruct H as [_ H].
    destruct (link_lock s k) as [x'|]; [|discriminate]. apply Nat.eqb_eq in H. now subst. }
  pose proof (A t Ht Hkt) as A1. pose proof (A u Hu Hku) as A2. congruence.
Qed.

(* ------------------------------------------------------------------------------------------ *)
(* Part D: refutations                                                                          *)

Definition final (nn : nat) (progs : list (list op)) (sched : list nat) : st :=
  fst (run step sched (init nn progs, [])).

(* (5) "no operation touches a node after a successful pop_front / try_remove handed it back"
   is FALSE.  async_mutex profile: push_back(n1) reads sentinel_.self = &n0.rest and passes the
   first check of try_lock_checking; pop_front unlinks n0 and returns it; push_back loads n0.rest. *)
Definition uaf_sched_mutex : list nat := [0;0;0;0;0;0;0;0;0; 2;2;2; 1;1;1;1;1;1; 2].
Theorem no_access_after_hand_back_refuted :
  exists nn progs sched, uaf (final nn progs sched) = true /\ crash (final nn progs sched) = false.
Proof. exists 2, [[B 0]; [P]; [B 1]], uaf_sched_mutex. vm_compute. split; reflexivity. Qed.

(* event profile: latch_and_drain (what set() calls) looks for the tail link through
   sentinel_.self = &n1.rest; try_remove(n1) unlinks and returns n1; the drain loads n1.rest. *)
Definition uaf_sched_event : list nat := [0;0;0;0;0; 0;0;0;0;0; 0;0;0; 1;1;1;1;1;1;1;1;1;1;1; 0].
Theorem no_access_after_hand_back_refuted_event :
  exists sched, uaf (final 2 [[F 1; F 0; D]; [R 1]] sched) = true.
Proof. exists uaf_sched_event. vm_compute. reflexivity. Qed.

(* empty() is not linearisable: thread 1's own push_back(n1) has returned, nothing removes
   anything, and its empty() answers true (thread 0 sits between claim and unlock of head_). *)
Definition empty_sched : list nat := [0;0;0;0;0;0;0;0; 1;1;1;1;1;1;1;1;1].
Theorem empty_linearizable_refuted :
  exists sched,
    let s := final 2 [[B 0]; [B 1; E]] sched in
    cur s 1 = {| prog := [E]; tpc := PIdle; t_lin := None |} /\
    In 1 (chain_nodes s 0) /\ In 1 (abs s 0) /\
    exists s', step 1 s = Some (s', [ELdLink (LHead 0) (PSent 0) true; ERet (RBool true)]) /\ embad s' = false.
Proof.
  exists empty_sched. vm_compute. repeat split; auto. eexists. split; reflexivity.
Qed.

(* outside the interface: push_back on a latched list dereferences sentinel_.self = nullptr *)
Theorem push_back_on_latched_list_crashes :
  exists sched, crash (final 1 [[D; B 0]] sched) = true.
Proof. exists [0;0;0;0;0;0]. vm_compute. reflexivity. Qed.

(* ------------------------------------------------------------------------------------------ *)
(* Part E: parametric facts - all numbers of nodes and threads, all programs, all schedules     *)

Lemma set_nth_length {A} n (x : A) l : length (set_nth n x l) = length l.
Proof. revert n; induction l; intros [|n]; simpl; auto. Qed.

Lemma nth_set_nth {A} n m (x d : A) l :
  nth m (set_nth n x l) d = if Nat.eqb m n && Nat.ltb n (length l) then x else nth m l d.
Proof.
  revert n m; induction l as [|y l IH]; intros [|n] [|m]; simpl; auto.
  - rewrite andb_false_r. reflexivity.
  - rewrite IH. reflexivity.
Qed.

Lemma link_eqb_eq a b : link_eqb a b = true <-> a = b.
Proof.
  destruct a, b; simpl; split; intros H; try discriminate; try (apply Nat.eqb_eq in H; now subst);
    inversion H; apply Nat.eqb_refl.
Qed.
Lemma link_eqb_refl a : link_eqb a a = true.
Proof. now apply link_eqb_eq. Qed.
Lemma link_eqb_neq a b : link_eqb a b = false <-> a <> b.
Proof.
  split; intros H.
  - intros E. apply link_eqb_eq in E. congruence.
  - destruct (link_eqb a b) eqn:E; [apply link_eqb_eq in E; contradiction|reflexivity].
Qed.

(* --- observations under the state transformers --- *)
Definition lockview (s : st) (k : link) : option nat := link_lock s k.

Lemma node_upd_node s n f m :
  node (upd_node s n f) m = if Nat.eqb m n && Nat.ltb n (length (nodes s)) then f (node s n) else node s m.
Proof. unfold node, upd_node, with_nodes; simpl. apply nth_set_nth. Qed.
Lemma lst_upd_list s l f m :
  lst (upd_list s l f) m = if Nat.eqb m l && Nat.ltb l (length (lists s)) then f (lst s l) else lst s m.
Proof. unfold lst, upd_list, with_lists; simpl. apply nth_set_nth. Qed.
Lemma lst_upd_node s n f m : lst (upd_node s n f) m = lst s m.
Proof. reflexivity. Qed.
Lemma node_upd_list s l f m : node (upd_list s l f) m = node s m.
Proof. reflexivity. Qed.

Definition nkeep (f : nrec -> nrec) : Prop := forall r, n_lock (f r) = n_lock r.
Definition lkeep (f : lrec -> lrec) : Prop := forall r, l_lock (f r) = l_lock r.

Lemma lock_upd_node s n f k : nkeep f -> link_lock (upd_node s n f) k = link_lock s k.
Proof.
  intros H. destruct k as [l|m]; simpl; [reflexivity|]. rewrite node_upd_node.
  destruct (Nat.eqb m n && Nat.ltb n (length (nodes s))) eqn:E; [|reflexivity].
  apply andb_true_iff in E. destruct E as [E _]. apply Nat.eqb_eq in E. subst. apply H.
Qed.
Lemma lock_upd_list s l f k : lkeep f -> link_lock (upd_list s l f) k = link_lock s k.
Proof.
  intros H. destruct k as [m|m]; simpl; [|reflexivity]. rewrite lst_upd_list.
  destruct (Nat.eqb m l && Nat.ltb l (length (lists s))) eqn:E; [|reflexivity].
  apply andb_true_iff in E. destruct E as [E _]. apply Nat.eqb_eq in E. subst. apply H.
Qed.

Lemma nkeep_self v : nkeep (nr_self v). Proof. intros r; reflexivity. Qed.
Lemma nkeep_rest v : nkeep (nr_rest v). Proof. intros r; reflexivity. Qed.
Lemma nkeep_used : nkeep nr_used. Proof. intros r; reflexivity. Qed.
Lemma nkeep_freed : nkeep nr_freed. Proof. intros r; reflexivity. Qed.
Lemma lkeep_head v : lkeep (lr_head v). Proof. intros r; reflexivity. Qed.
Lemma lkeep_sself v : lkeep (lr_sself v). Proof. intros r; reflexivity. Qed.
Lemma lkeep_lself v : lkeep (lr_lself v). Proof. intros r; reflexivity. Qed.
Lemma lkeep_abs v : lkeep (lr_abs v). Proof. intros r; reflexivity. Qed.
Lemma lkeep_alatch v : lkeep (lr_alatch v). Proof. intros r; reflexivity. Qed.
#[local] Hint Resolve nkeep_self nkeep_rest nkeep_used nkeep_freed lkeep_head lkeep_sself lkeep_lself
  lkeep_abs lkeep_alatch : keep.

(* a transformer that leaves locks, threads and sizes alone *)
Record quiet (s s' : st) : Prop := {
  q_lock : forall k, link_lock s' k = link_lock s k;
  q_thr : thr s' = thr s;
  q_nn : length (nodes s') = length (nodes s);
  q_nl : length (lists s') = length (lists s)
}.
Lemma quiet_refl s : quiet s s.
Proof. split; auto. Qed.
Lemma quiet_trans a b c : quiet a b -> quiet b c -> quiet a c.
Proof.
  intros [A1 A2 A3 A4] [B1 B2 B3 B4]. split; [intros k; rewrite B1; apply A1 | congruence ..].
Qed.
Lemma quiet_upd_node s n f : nkeep f -> quiet s (upd_node s n f).
Proof.
  intros H. split; [intros k; now apply lock_upd_node | reflexivity | | reflexivity].
  unfold upd_node, with_nodes; simpl. apply set_nth_length.
Qed.
Lemma quiet_upd_list s l f : lkeep f -> quiet s (upd_list s l f).
Proof.
  intros H. split; [intros k; now apply lock_upd_list | reflexivity | reflexivity | ].
  unfold upd_list, with_lists; simpl. apply set_nth_length.
Qed.
Lemma quiet_set_self s x v : quiet s (set_self s x v).
Proof.
  destruct x; simpl; [apply quiet_refl|apply quiet_upd_node|apply quiet_upd_list|apply quiet_upd_list];
    auto with keep.
Qed.
Lemma quiet_set_link_val s k v : quiet s (set_link_val s k v).
Proof. destruct k; simpl; [apply quiet_upd_list|apply quiet_upd_node]; auto with keep. Qed.
Lemma quiet_with_uaf s b : quiet s (with_uaf s b). Proof. split; auto. Qed.
Lemma quiet_with_crash s b : quiet s (with_crash s b). Proof. split; auto. Qed.
Lemma quiet_with_linbad s b : quiet s (with_linbad s b). Proof. split; auto. Qed.
Lemma quiet_with_embad s b : quiet s (with_embad s b). Proof. split; auto. Qed.
Lemma quiet_touch_node o m s : quiet s (touch_node o m s).
Proof.
  unfold touch_node. destruct (n_freed (node s m)); [|apply quiet_refl].
  destruct o as [a|]; [destruct (Nat.eqb a m)|]; try apply quiet_refl; apply quiet_with_uaf.
Qed.
Lemma quiet_touch_link o k s : quiet s (touch_link o k s).
Proof. destruct k; simpl; [apply quiet_refl|apply quiet_touch_node]. Qed.
Lemma quiet_touch_obj o x s : quiet s (touch_obj o x s).
Proof. destruct x; simpl; try apply quiet_refl; apply quiet_touch_node. Qed.
Lemma quiet_set_abs s l v : quiet s (set_abs s l v).
Proof. apply quiet_upd_list; auto with keep. Qed.

(* the specification functions only write ghost fields *)
Definition ghostly (f : st -> st * res) : Prop := forall s, quiet s (fst (f s)).
Lemma ghostly_push_back b : ghostly (spec_push_back b).
Proof. intros s. apply quiet_set_abs. Qed.
Lemma ghostly_push_front b : ghostly (spec_push_front b).
Proof. intros s. unfold spec_push_front. destruct (l_alatch (lst s 0)); simpl; [apply quiet_refl|apply quiet_set_abs]. Qed.
Lemma ghostly_pop l : ghostly (spec_pop l).
Proof. intros s. unfold spec_pop. destruct (abs s l); simpl; [apply quiet_refl|apply quiet_set_abs]. Qed.
Lemma map_nth_lock (ls : list lrec) g m :
  (forall r, l_lock (g r) = l_lock r) -> l_lock (nth m (map g ls) lnil) = l_lock (nth m ls lnil).
Proof.
  intros H. revert m; induction ls as [|r ls IH]; intros [|m]; simpl; auto.
Qed.
Lemma ghostly_remove a : ghostly (spec_remove a).
Proof.
  intros s. unfold spec_remove.
  destruct (existsb _ (lists s)); simpl; [|apply quiet_refl].
  split; simpl; [ | reflexivity | reflexivity | apply map_length].
  intros [l|n]; simpl; [|reflexivity]. unfold lst; simpl. apply map_nth_lock. reflexivity.
Qed.
Lemma ghostly_latch_drain t : ghostly (spec_latch_drain t).
Proof.
  intros s. unfold spec_latch_drain. destruct (l_alatch (lst s 0)); simpl; [apply quiet_refl|].
  eapply quiet_trans; [eapply quiet_trans; [apply quiet_set_abs|apply quiet_set_abs]|].
  apply quiet_upd_list; auto with keep.
Qed.
Lemma ghostly_unlatch : ghostly spec_unlatch.
Proof.
  intros s. unfold spec_unlatch. destruct (l_alatch (lst s 0)); simpl; [|apply quiet_refl].
  apply quiet_upd_list; auto with keep.
Qed.
Lemma ghostly_is_latched : ghostly spec_is_latched.
Proof. intros s. apply quiet_refl. Qed.
#[local] Hint Resolve ghostly_push_back ghostly_push_front ghostly_pop ghostly_remove ghostly_latch_drain
  ghostly_unlatch ghostly_is_latched : keep.

(* thread transformers *)
Lemma cur_set_thread s t th u :
  cur (set_thread s t th) u = if Nat.eqb u t && Nat.ltb t (length (thr s)) then th else cur s u.
Proof. unfold cur, set_thread, with_thr; simpl. apply nth_set_nth. Qed.
Lemma len_set_thread s t th : length (thr (set_thread s t th)) = length (thr s).
Proof. unfold set_thread, with_thr; simpl. apply set_nth_length. Qed.

(* what a step may do to the observations lock words / program points / sizes *)
Record tquiet (s s' : st) : Prop := {
  tq_lock : forall k, link_lock s' k = link_lock s k;
  tq_pc : forall u, tpc (cur s' u) = tpc (cur s u);
  tq_nt : length (thr s') = length (thr s);
  tq_nn : length (nodes s') = length (nodes s);
  tq_nl : length (lists s') = length (lists s)
}.
Lemma tquiet_refl s : tquiet s s.
Proof. split; auto. Qed.
Lemma tquiet_trans a b c : tquiet a b -> tquiet b c -> tquiet a c.
Proof.
  intros [A1 A2 A3 A4 A5] [B1 B2 B3 B4 B5].
  split; [intros k; rewrite B1; apply A1 | intros u; rewrite B2; apply A2 | congruence ..].
Qed.
Lemma quiet_tquiet s s' : quiet s s' -> tquiet s s'.
Proof.
  intros [A1 A2 A3 A4]. split; auto.
  - intros u. unfold cur. now rewrite A2.
  - now rewrite A2.
Qed.
Lemma tquiet_set_prog s t r : tquiet s (set_prog s t r).
Proof.
  unfold set_prog. split; try reflexivity.
  - intros u. rewrite cur_set_thread.
    destruct (Nat.eqb u t && Nat.ltb t (length (thr s))) eqn:E; [|reflexivity].
    apply andb_true_iff in E. destruct E as [E _]. apply Nat.eqb_eq in E. now subst.
  - apply len_set_thread.
Qed.
Lemma tquiet_lin s t f : ghostly f -> tquiet s (lin s t f).
Proof.
  intros G. unfold lin. specialize (G s). destruct (f s) as [s1 r]. simpl in G.
  apply quiet_tquiet in G.
  assert (A : tquiet s1 (set_thread s1 t {| prog := prog (cur s1 t); tpc := tpc (cur s1 t); t_lin := Some r |})).
  { split; try reflexivity.
    - intros u. rewrite cur_set_thread.
      destruct (Nat.eqb u t && Nat.ltb t (length (thr s1))) eqn:E; [|reflexivity].
      apply andb_true_iff in E. destruct E as [E _]. apply Nat.eqb_eq in E. now subst.
    - apply len_set_thread. }
  destruct (t_lin (cur s1 t)).
  - eapply tquiet_trans; [exact G|]. eapply tquiet_trans; [exact A|].
    apply quiet_tquiet. apply quiet_with_linbad.
  - eapply tquiet_trans; eauto.
Qed.

(* s' differs from s in the program point of thread t only *)
Record pcstep (t : nat) (p' : pc) (s s' : st) : Prop := {
  ps_lock : forall k, link_lock s' k = link_lock s k;
  ps_pc : forall u, tpc (cur s' u) = if Nat.eqb u t && Nat.ltb t (length (thr s)) then p' else tpc (cur s u);
  ps_nt : length (thr s') = length (thr s);
  ps_nn : length (nodes s') = length (nodes s);
  ps_nl : length (lists s') = length (lists s)
}.
Lemma pcstep_set_pc s t p : pcstep t p s (set_pc s t p).
Proof.
  unfold set_pc. split; try reflexivity.
  - intros u. rewrite cur_set_thread. destruct (Nat.eqb u t && Nat.ltb t (length (thr s))); reflexivity.
  - apply len_set_thread.
Qed.
Lemma pcstep_ret s t r : pcstep t PIdle s (ret s t r).
Proof.
  unfold ret.
  set (s1 := set_thread s t {| prog := prog (cur s t); tpc := PIdle; t_lin := None |}).
  assert (A : pcstep t PIdle s s1).
  { split; try reflexivity.
    - intros u. unfold s1. rewrite cur_set_thread. destruct (Nat.eqb u t && Nat.ltb t (length (thr s))); reflexivity.
    - apply len_set_thread. }
  assert (B : pcstep t PIdle s (with_linbad s1 true)) by (destruct A; split; auto).
  destruct (t_lin (cur s t)) as [r'|]; [destruct (res_eqb r r')|]; assumption.
Qed.
Lemma pcstep_tquiet_l t p a b c : tquiet a b -> pcstep t p b c -> pcstep t p a c.
Proof.
  intros [A1 A2 A3 A4 A5] [B1 B2 B3 B4 B5].
  split; [intros k; rewrite B1; apply A1 | intros u; rewrite B2, A3, A2; reflexivity | congruence ..].
Qed.
Lemma pcstep_tquiet_r t p a b c : pcstep t p a b -> tquiet b c -> pcstep t p a c.
Proof.
  intros [A1 A2 A3 A4 A5] [B1 B2 B3 B4 B5].
  split; [intros k; rewrite B1; apply A1 | intros u; rewrite B2, A2; reflexivity | congruence ..].
Qed.

(* lock operations *)
Lemma valid_link_sizes s s' k :
  length (nodes s') = length (nodes s) -> length (lists s') = length (lists s) ->
  valid_link s' k = valid_link s k.
Proof. intros A B. destruct k; simpl; congruence. Qed.

Lemma lock_set_link_lock s k o k' :
  link_lock (set_link_lock s k o) k' = if link_eqb k' k && valid_link s k then o else link_lock s k'.
Proof.
  destruct k as [l|n], k' as [l'|n']; simpl; try reflexivity.
  - rewrite lst_upd_list. destruct (Nat.eqb l' l && Nat.ltb l (length (lists s))); reflexivity.
  - rewrite node_upd_node. destruct (Nat.eqb n' n && Nat.ltb n (length (nodes s))); reflexivity.
Qed.

Record lockop (k0 : link) (o : option nat) (s s' : st) : Prop := {
  lo_lock : forall k, link_lock s' k = if link_eqb k k0 && valid_link s k0 then o else link_lock s k;
  lo_pc : forall u, tpc (cur s' u) = tpc (cur s u);
  lo_nt : length (thr s') = length (thr s);
  lo_nn : length (nodes s') = length (nodes s);
  lo_nl : length (lists s') = length (lists s)
}.
Lemma lockop_set_link_lock s k o : lockop k o s (set_link_lock s k o).
Proof.
  split; [intros k'; apply lock_set_link_lock | destruct k; reflexivity | destruct k; reflexivity | | ];
    destruct k; simpl; unfold upd_node, upd_list, with_nodes, with_lists; simpl;
    rewrite ?set_nth_length; reflexivity.
Qed.
Lemma lockop_unlock s k v : lockop k None s (unlock s k v).
Proof.
  unfold unlock. pose proof (quiet_set_link_val s k v) as Q. apply quiet_tquiet in Q.
  pose proof (lockop_set_link_lock (set_link_val s k v) k None) as [A1 A2 A3 A4 A5].
  destruct Q as [B1 B2 B3 B4 B5].
  split; [intros k'; rewrite A1, B1, (valid_link_sizes _ _ _ B4 B5); reflexivity
         | intros u; rewrite A2; apply B2 | congruence ..].
Qed.
Lemma lockop_tquiet_l k o a b c : tquiet a b -> lockop k o b c -> lockop k o a c.
Proof.
  intros [A1 A2 A3 A4 A5] [B1 B2 B3 B4 B5].
  split; [intros k'; rewrite B1, A1, (valid_link_sizes _ _ _ A4 A5); reflexivity
         | intros u; rewrite B2; apply A2 | congruence ..].
Qed.
Lemma lockop_tquiet_r k o a b c : lockop k o a b -> tquiet b c -> lockop k o a c.
Proof.
  intros [A1 A2 A3 A4 A5] [B1 B2 B3 B4 B5].
  split; [intros k'; rewrite B1; apply A1 | intros u; rewrite B2; apply A2 | congruence ..].
Qed.
Lemma acquire_lockop s t k v s1 :
  acquire s t k = Some (v, s1) -> valid_link s k = true /\ link_lock s k = None /\ lockop k (Some t) s s1.
Proof.
  unfold acquire. destruct (valid_link s k) eqn:V; [|discriminate].
  destruct (link_lock s k) eqn:E; [discriminate|]. intros H. inversion H; subst.
  repeat split; auto; try apply lockop_set_link_lock.
Qed.

(* --- the lock discipline --- *)
Definition LockInv (s : st) : Prop :=
  (forall k u, link_lock s k = Some u -> u < length (thr s) /\ In k (held u (tpc (cur s u)))) /\
  (forall u, u < length (thr s) ->
     NoDup (held u (tpc (cur s u))) /\
     forall k, In k (held u (tpc (cur s u))) -> valid_link s k = true /\ link_lock s k = Some u).

Lemma pcstep_pc_t t p' s s' : t < length (thr s) -> pcstep t p' s s' -> tpc (cur s' t) = p'.
Proof. intros Ht [_ P _ _ _]. rewrite P, Nat.eqb_refl. apply Nat.ltb_lt in Ht. now rewrite Ht. Qed.
Lemma pcstep_pc_other t p' s s' u : u <> t -> pcstep t p' s s' -> tpc (cur s' u) = tpc (cur s u).
Proof. intros Hu [_ P _ _ _]. rewrite P. apply Nat.eqb_neq in Hu. now rewrite Hu. Qed.

Lemma L_keep s s' t p' :
  LockInv s -> t < length (thr s) -> pcstep t p' s s' ->
  Permutation (held t p') (held t (tpc (cur s t))) -> LockInv s'.
Proof.
  intros [Ia Ib] Ht PS Perm.
  pose proof (pcstep_pc_t _ _ _ _ Ht PS) as Pt.
  destruct PS as [PL PP Pnt Pnn Pnl].
  assert (PO : forall u, u <> t -> tpc (cur s' u) = tpc (cur s u)).
  { intros u Hu. rewrite PP. apply Nat.eqb_neq in Hu. now rewrite Hu. }
  split.
  - intros k u H. rewrite PL in H. destruct (Ia k u H) as [A B]. split; [congruence|].
    destruct (Nat.eq_dec u t) as [->|Hu].
    + rewrite Pt. eapply Permutation_in; [apply Permutation_sym; exact Perm|exact B].
    + rewrite (PO u Hu). exact B.
  - intros u Hu. rewrite Pnt in Hu. destruct (Ib u Hu) as [A B].
    destruct (Nat.eq_dec u t) as [->|Hne].
    + rewrite Pt. split.
      * eapply Permutation_NoDup; [apply Permutation_sym; exact Perm|exact A].
      * intros k Hk. rewrite PL, (valid_link_sizes _ _ _ Pnn Pnl). apply B.
        eapply Permutation_in; [exact Perm|exact Hk].
    + rewrite (PO u Hne). split; [exact A|].
      intros k Hk. rewrite PL, (valid_link_sizes _ _ _ Pnn Pnl). now apply B.
Qed.

Lemma L_acq s b s' t p' k0 :
  LockInv s -> t < length (thr s) -> lockop k0 (Some t) s b ->
  valid_link s k0 = true -> link_lock s k0 = None -> pcstep t p' b s' ->
  Permutation (held t p') (k0 :: held t (tpc (cur s t))) -> LockInv s'.
Proof.
  intros [Ia Ib] Ht [LL LP Lnt Lnn Lnl] V0 N0 PS Perm.
  assert (Htb : t < length (thr b)) by congruence.
  pose proof (pcstep_pc_t _ _ _ _ Htb PS) as Pt.
  assert (PO : forall u, u <> t -> tpc (cur s' u) = tpc (cur s u)).
  { intros u Hu. rewrite (pcstep_pc_other _ _ _ _ _ Hu PS). apply LP. }
  destruct PS as [PL _ Pnt Pnn Pnl].
  assert (LK : forall k, link_lock s' k = if link_eqb k k0 then Some t else link_lock s k).
  { intros k. rewrite PL, LL, V0, andb_true_r. reflexivity. }
  assert (VL : forall k, valid_link s' k = valid_link s k).
  { intros k. rewrite (valid_link_sizes _ _ _ Pnn Pnl). apply valid_link_sizes; assumption. }
  assert (NT : length (thr s') = length (thr s)) by congruence.
  split.
  - intros k u H. rewrite LK in H. rewrite NT. destruct (link_eqb k k0) eqn:E.
    + apply link_eqb_eq in E. subst k. inversion H; subst u. split; [exact Ht|].
      rewrite Pt. eapply Permutation_in; [apply Permutation_sym; exact Perm|left; reflexivity].
    + destruct (Ia k u H) as [A B]. split; [exact A|].
      destruct (Nat.eq_dec u t) as [->|Hu].
      * rewrite Pt. eapply Permutation_in; [apply Permutation_sym; exact Perm|right; exact B].
      * rewrite (PO u Hu). exact B.
  - intros u Hu. rewrite NT in Hu. destruct (Ib u Hu) as [A B].
    destruct (Nat.eq_dec u t) as [->|Hne].
    + rewrite Pt. split.
      * eapply Permutation_NoDup; [apply Permutation_sym; exact Perm|].
        constructor; [|exact A]. intros Hin. destruct (B k0 Hin) as [_ C]. congruence.
      * intros k Hk. rewrite VL, LK.
        apply (Permutation_in _ Perm) in Hk. destruct Hk as [<-|Hk].
        -- rewrite link_eqb_refl. auto.
        -- destruct (B k Hk) as [C1 C2]. destruct (link_eqb k k0) eqn:E; auto.
    + rewrite (PO u Hne). split; [exact A|].
      intros k Hk. rewrite VL, LK. destruct (B k Hk) as [C1 C2]. split; [exact C1|].
      destruct (link_eqb k k0) eqn:E; [|exact C2]. apply link_eqb_eq in E. congruence.
Qed.

Lemma L_rel s b s' t p' k0 :
  LockInv s -> t < length (thr s) -> lockop k0 None s b -> pcstep t p' b s' ->
  Permutation (held t (tpc (cur s t))) (k0 :: held t p') -> LockInv s'.
Proof.
  intros [Ia Ib] Ht [LL LP Lnt Lnn Lnl] PS Perm.
  assert (Htb : t < length (thr b)) by congruence.
  pose proof (pcstep_pc_t _ _ _ _ Htb PS) as Pt.
  assert (PO : forall u, u <> t -> tpc (cur s' u) = tpc (cur s u)).
  { intros u Hu. rewrite (pcstep_pc_other _ _ _ _ _ Hu PS). apply LP. }
  destruct PS as [PL _ Pnt Pnn Pnl].
  destruct (Ib t Ht) as [ND Bt].
  assert (H0 : In k0 (held t (tpc (cur s t)))).
  { eapply Permutation_in; [apply Permutation_sym; exact Perm|left; reflexivity]. }
  destruct (Bt k0 H0) as [V0 L0].
  assert (LK : forall k, link_lock s' k = if link_eqb k k0 then None else link_lock s k).
  { intros k. rewrite PL, LL, V0, andb_true_r. reflexivity. }
  assert (VL : forall k, valid_link s' k = valid_link s k).
  { intros k. rewrite (valid_link_sizes _ _ _ Pnn Pnl). apply valid_link_sizes; assumption. }
  assert (NT : length (thr s') = length (thr s)) by congruence.
  assert (ND' : NoDup (k0 :: held t p')) by (eapply Permutation_NoDup; [exact Perm|exact ND]).
  split.
  - intros k u H. rewrite LK in H. rewrite NT. destruct (link_eqb k k0) eqn:E; [discriminate|].
    destruct (Ia k u H) as [A B]. split; [exact A|].
    destruct (Nat.eq_dec u t) as [->|Hu].
    + rewrite Pt. apply (Permutation_in _ Perm) in B. destruct B as [<-|B]; [|exact B].
      rewrite link_eqb_refl in E. discriminate.
    + rewrite (PO u Hu). exact B.
  - intros u Hu. rewrite NT in Hu. destruct (Ib u Hu) as [A B].
    destruct (Nat.eq_dec u t) as [->|Hne].
    + rewrite Pt. split; [now inversion ND'|].
      intros k Hk. rewrite VL, LK.
      assert (Hk' : In k (held t (tpc (cur s t)))).
      { eapply Permutation_in; [apply Permutation_sym; exact Perm|right; exact Hk]. }
      destruct (Bt k Hk') as [C1 C2]. split; [exact C1|].
      destruct (link_eqb k k0) eqn:E; [|exact C2]. apply link_eqb_eq in E. subst k.
      inversion ND'; contradiction.
    + rewrite (PO u Hne). split; [exact A|].
      intros k Hk. rewrite VL, LK. destruct (B k Hk) as [C1 C2]. split; [exact C1|].
      destruct (link_eqb k k0) eqn:E; [|exact C2]. apply link_eqb_eq in E. subst k. congruence.
Qed.

Lemma LockInv_tquiet s s' : tquiet s s' -> LockInv s -> LockInv s'.
Proof.
  intros [QL QP Qnt Qnn Qnl] [Ia Ib]. split.
  - intros k u H. rewrite QL in H. rewrite Qnt, QP. now apply Ia.
  - intros u Hu. rewrite Qnt in Hu. rewrite QP. destruct (Ib u Hu) as [A B]. split; [exact A|].
    intros k Hk. rewrite QL, (valid_link_sizes _ _ _ Qnn Qnl). now apply B.
Qed.

Ltac q1 :=
  first
    [ apply tquiet_lin; solve [auto with keep]
    | apply tquiet_set_prog
    | apply quiet_tquiet; first
        [ apply quiet_upd_node; solve [auto with keep]
        | apply quiet_upd_list; solve [auto with keep]
        | apply quiet_set_self | apply quiet_set_link_val
        | apply quiet_with_uaf | apply quiet_with_crash | apply quiet_with_linbad | apply quiet_with_embad
        | apply quiet_touch_node | apply quiet_touch_link | apply quiet_touch_obj ] ].
Ltac tq := repeat first [ exact (tquiet_refl _) | eapply tquiet_trans; [| q1] ].
Ltac ps :=
  lazymatch goal with
  | |- pcstep _ _ _ (set_pc _ _ _) => eapply pcstep_tquiet_l; [| apply pcstep_set_pc]; tq
  | |- pcstep _ _ _ (ret _ _ _) => eapply pcstep_tquiet_l; [| apply pcstep_ret]; tq
  | |- pcstep _ _ _ _ => eapply pcstep_tquiet_r; [ | q1 ]; ps
  end.
Ltac lo :=
  lazymatch goal with
  | |- lockop _ _ _ (unlock _ _ _) => eapply lockop_tquiet_l; [| apply lockop_unlock]; tq
  | |- lockop _ _ _ (set_link_lock _ _ _) => eapply lockop_tquiet_l; [| apply lockop_set_link_lock]; tq
  | |- lockop _ _ _ _ => eapply lockop_tquiet_r; [ | q1 ]; lo
  end.
Ltac perm :=
  simpl; first [ apply Permutation_refl | apply perm_swap | apply perm_skip; apply Permutation_refl
               | apply perm_skip; apply perm_swap ].

Lemma some_pair_inv {A B} (a c : A) (b d : B) : Some (a, b) = Some (c, d) -> c = a /\ d = b.
Proof. intros H; inversion H; auto. Qed.
Ltac inv_some :=
  match goal with H : Some (_, _) = Some (_, _) |- _ => apply some_pair_inv in H; destruct H as [-> ->] end.
Ltac leaf_keep I Ht Hpc := eapply L_keep; [exact I | exact Ht | ps | rewrite Hpc; perm].
Ltac leaf_rel I Ht Hpc :=
  eapply L_rel; [exact I | exact Ht | | first [apply pcstep_set_pc | apply pcstep_ret] | ];
  [lo | rewrite Hpc; perm].
Ltac leaf_acq I Ht Hpc :=
  match goal with E : acquire ?s0 ?t ?k = Some (_, ?s1) |- _ =>
    let V := fresh "V" in let N := fresh "N" in let LO := fresh "LO" in
    destruct (acquire_lockop _ _ _ _ _ E) as (V & N & LO);
    eapply (L_acq s0 s1); [exact I | exact Ht | exact LO | exact V | exact N | ps | rewrite Hpc; perm]
  end.
Ltac leaf I Ht Hpc := first [ solve [leaf_keep I Ht Hpc] | solve [leaf_rel I Ht Hpc] | solve [leaf_acq I Ht Hpc] ].
Ltac split_match H :=
  repeat match type of H with
         | context [match ?x with _ => _ end] =>
             lazymatch x with
             | acquire _ _ _ => let E := fresh "E" in destruct x as [[? ?]|] eqn:E
             | _ => destruct x eqn:?
             end; try discriminate
         end.

Lemma LockInv_step t s s' e : LockInv s -> step t s = Some (s', e) -> LockInv s'.
Proof.
  intros I H. unfold step in H.
  destruct (nth_error (thr s) t) as [th|] eqn:Eth; [|discriminate].
  assert (Ht : t < length (thr s)) by (apply nth_error_Some; congruence).
  assert (Ecur : cur s t = th) by (unfold cur; apply nth_error_nth; exact Eth).
  assert (Hpc : tpc (cur s t) = tpc th) by (now rewrite Ecur).
  destruct (tpc th) eqn:Epc.
  all: cbv beta iota in H.
  all: try discriminate.
  all: try (try match goal with c : kont |- _ => destruct c end; split_match H; inv_some; leaf I Ht Hpc; fail).
  - (* PIdle: the first access of the next operation *)
    destruct (prog th) as [|o r] eqn:Eprog; [discriminate|].
    set (s0 := set_prog s t r) in *.
    assert (Q0 : tquiet s s0) by apply tquiet_set_prog.
    assert (I0 : LockInv s0) by (eapply LockInv_tquiet; eauto).
    assert (Ht0 : t < length (thr s0)) by (destruct Q0; congruence).
    assert (Hpc0 : tpc (cur s0 t) = PIdle) by (destruct Q0 as [_ P _ _ _]; now rewrite P).
    clearbody s0. unfold start, do_pr0 in H.
    destruct o; split_match H; inv_some;
      try (leaf I0 Ht0 Hpc0);
      try exact I0;
      try (eapply LockInv_tquiet; [|exact I0]; tq; fail).
  - (* PT4: the CAS of try_lock_checking *)
    destruct (valid_link s k && negb (is_locked s k) && ptr_eqb (link_val s k) v) eqn:C.
    + apply andb_true_iff in C. destruct C as [C _]. apply andb_true_iff in C. destruct C as [V N].
      assert (N' : link_lock s k = None).
      { unfold is_locked in N. destruct (link_lock s k); [discriminate|reflexivity]. }
      inv_some.
      destruct c; (eapply L_acq; [exact I | exact Ht | | exact V | exact N' | apply pcstep_set_pc | ];
                   [lo | rewrite Hpc; perm]).
    + destruct c; split_match H; inv_some; leaf I Ht Hpc.
  - (* PR0 *)
    unfold do_pr0 in H. split_match H; inv_some; leaf I Ht Hpc.
Qed.

Lemma nth_prop {A} (P : A -> Prop) (l : list A) d n : P d -> (forall x, In x l -> P x) -> P (nth n l d).
Proof. intros Hd Hl. destruct (nth_in_or_default n l d) as [H|H]; [auto|now rewrite H]. Qed.

Lemma LockInv_init nn progs : LockInv (init nn progs).
Proof.
  assert (PC : forall u, tpc (cur (init nn progs) u) = PIdle).
  { intros u. unfold cur, init. cbn [thr]. apply (nth_prop (fun th => tpc th = PIdle)); [reflexivity|].
    intros x H. apply in_map_iff in H. destruct H as (p & <- & _). reflexivity. }
  assert (LK : forall k, link_lock (init nn progs) k = None).
  { intros [l|n]; unfold link_lock, lst, node, init; cbn [lists nodes].
    - apply (nth_prop (fun r => l_lock r = None)); [reflexivity|].
      intros x H. apply in_map_iff in H. destruct H as (y & <- & _). reflexivity.
    - apply (nth_prop (fun r => n_lock r = None)); [reflexivity|].
      intros x H. apply repeat_spec in H. now subst. }
  split.
  - intros k u H. rewrite LK in H. discriminate.
  - intros u _. rewrite PC. simpl. split; [constructor|]. intros k [].
Qed.

(* (1c), for ALL numbers of nodes and threads, ALL programs, ALL schedules: the lock word of a
   link names a thread whose program point holds that link; a link held according to a thread's
   program point is a link of the memory and its lock word names that thread; no program point
   holds a link twice.  Hence no link is ever held by two threads. *)
Theorem lock_discipline nn progs sched : LockInv (fst (run step sched (init nn progs, []))).
Proof.
  apply (run_invariant_state st nat ev step LockInv).
  - intros s t s' evs I H. eapply LockInv_step; eauto.
  - apply LockInv_init.
Qed.

Corollary lock_exclusive nn progs sched :
  let s := fst (run step sched (init nn progs, [])) in
  forall t u k, t < length (thr s) -> u < length (thr s) ->
    In k (held t (tpc (cur s t))) -> In k (held u (tpc (cur s u))) -> t = u.
Proof.
  intros s t u k Ht Hu Hkt Hku. destruct (lock_discipline nn progs sched) as [_ Ib]. fold s in Ib.
  destruct (Ib t Ht) as [_ Bt]. destruct (Ib u Hu) as [_ Bu].
  destruct (Bt k Hkt) as [_ A1]. destruct (Bu k Hku) as [_ A2]. congruence.
Qed.


(* --- erasure of the specification ghosts (l_abs, l_alatch, t_lin, linbad, embad) --- *)
Definition er_l (r : lrec) : lrec :=
  {| l_head := l_head r; l_lock := l_lock r; l_sself := l_sself r; l_lself := l_lself r;
     l_abs := []; l_alatch := false |}.
Definition er_t (th : thread) : thread := {| prog := prog th; tpc := tpc th; t_lin := None |}.
Definition erase (s : st) : st :=
  {| nodes := nodes s; lists := map er_l (lists s); thr := map er_t (thr s);
     uaf := uaf s; crash := crash s; linbad := false; embad := false |}.

Lemma map_set_nth {A B} (g : A -> B) n x l : map g (set_nth n x l) = set_nth n (g x) (map g l).
Proof. revert n; induction l; intros [|n]; simpl; auto. now rewrite IHl. Qed.
Lemma map_nth_d {A B} (g : A -> B) n l d : nth n (map g l) (g d) = g (nth n l d).
Proof. apply map_nth. Qed.

Lemma erase_idem s : erase (erase s) = erase s.
Proof.
  unfold erase; simpl. f_equal; rewrite map_map; apply map_ext; intros []; reflexivity.
Qed.
Lemma node_erase s n : node (erase s) n = node s n.
Proof. reflexivity. Qed.
Lemma lst_erase s l : lst (erase s) l = er_l (lst s l).
Proof. unfold lst, erase; simpl. change lnil with (er_l lnil). apply map_nth. Qed.
Lemma cur_erase s t : cur (erase s) t = er_t (cur s t).
Proof. unfold cur, erase; simpl. change tnil with (er_t tnil). apply map_nth. Qed.
Lemma link_val_erase s k : link_val (erase s) k = link_val s k.
Proof. destruct k; simpl; [now rewrite lst_erase|reflexivity]. Qed.
Lemma link_lock_erase s k : link_lock (erase s) k = link_lock s k.
Proof. destruct k; simpl; [now rewrite lst_erase|reflexivity]. Qed.
Lemma is_locked_erase s k : is_locked (erase s) k = is_locked s k.
Proof. unfold is_locked. now rewrite link_lock_erase. Qed.
Lemma get_self_erase s x : get_self (erase s) x = get_self s x.
Proof. destruct x; simpl; try reflexivity; now rewrite lst_erase. Qed.
Lemma valid_link_erase s k : valid_link (erase s) k = valid_link s k.
Proof. destruct k; simpl; [now rewrite map_length|reflexivity]. Qed.
Lemma valid_node_erase s n : valid_node (erase s) n = valid_node s n.
Proof. reflexivity. Qed.
Lemma fresh_erase s n : fresh (erase s) n = fresh s n.
Proof. reflexivity. Qed.

(* physical transformers commute with erase *)
Definition lphys (f : lrec -> lrec) : Prop := forall r, er_l (f r) = f (er_l r).
Lemma erase_upd_node s n f : erase (upd_node s n f) = upd_node (erase s) n f.
Proof. reflexivity. Qed.
Lemma erase_upd_list s l f : lphys f -> erase (upd_list s l f) = upd_list (erase s) l f.
Proof.
  intros H. unfold upd_list, with_lists, erase; simpl. f_equal.
  rewrite map_set_nth, H. f_equal. fold (lst s l). unfold lst. simpl.
  change lnil with (er_l lnil) at 2. now rewrite map_nth.
Qed.
Lemma lphys_head v : lphys (lr_head v). Proof. intros r; reflexivity. Qed.
Lemma lphys_lock v : lphys (lr_lock v). Proof. intros r; reflexivity. Qed.
Lemma lphys_sself v : lphys (lr_sself v). Proof. intros r; reflexivity. Qed.
Lemma lphys_lself v : lphys (lr_lself v). Proof. intros r; reflexivity. Qed.
#[local] Hint Resolve lphys_head lphys_lock lphys_sself lphys_lself : keep.
Lemma erase_set_link_val s k v : erase (set_link_val s k v) = set_link_val (erase s) k v.
Proof. destruct k; simpl; [apply erase_upd_list; auto with keep|reflexivity]. Qed.
Lemma erase_set_link_lock s k o : erase (set_link_lock s k o) = set_link_lock (erase s) k o.
Proof. destruct k; simpl; [apply erase_upd_list; auto with keep|reflexivity]. Qed.
Lemma erase_unlock s k v : erase (unlock s k v) = unlock (erase s) k v.
Proof. unfold unlock. now rewrite erase_set_link_lock, erase_set_link_val. Qed.
Lemma erase_set_self s x v : erase (set_self s x v) = set_self (erase s) x v.
Proof. destruct x; simpl; try reflexivity; apply erase_upd_list; auto with keep. Qed.
Lemma erase_with_uaf s b : erase (with_uaf s b) = with_uaf (erase s) b. Proof. reflexivity. Qed.
Lemma erase_with_crash s b : erase (with_crash s b) = with_crash (erase s) b. Proof. reflexivity. Qed.
Lemma erase_with_linbad s b : erase (with_linbad s b) = erase s. Proof. reflexivity. Qed.
Lemma erase_with_embad s b : erase (with_embad s b) = erase s. Proof. reflexivity. Qed.
Lemma erase_touch_node o m s : erase (touch_node o m s) = touch_node o m (erase s).
Proof.
  unfold touch_node. rewrite node_erase. destruct (n_freed (node s m)); [|reflexivity].
  destruct o as [a|]; [destruct (Nat.eqb a m)|]; reflexivity.
Qed.
Lemma erase_touch_link o k s : erase (touch_link o k s) = touch_link o k (erase s).
Proof. destruct k; simpl; [reflexivity|apply erase_touch_node]. Qed.
Lemma erase_touch_obj o x s : erase (touch_obj o x s) = touch_obj o x (erase s).
Proof. destruct x; simpl; try reflexivity; apply erase_touch_node. Qed.

(* thread transformers *)
Lemma erase_set_thread s t th : erase (set_thread s t th) = set_thread (erase s) t (er_t th).
Proof. unfold set_thread, with_thr, erase; simpl. f_equal. apply map_set_nth. Qed.
Lemma erase_set_pc s t p : erase (set_pc s t p) = set_pc (erase s) t p.
Proof. unfold set_pc. rewrite erase_set_thread, cur_erase. reflexivity. Qed.
Lemma erase_set_prog s t r : erase (set_prog s t r) = set_prog (erase s) t r.
Proof. unfold set_prog. rewrite erase_set_thread, cur_erase. reflexivity. Qed.
Definition retE (s : st) (t : nat) : st :=
  set_thread s t {| prog := prog (cur s t); tpc := PIdle; t_lin := None |}.
Lemma erase_ret s t r : erase (ret s t r) = retE (erase s) t.
Proof.
  unfold ret, retE. rewrite cur_erase. simpl.
  destruct (t_lin (cur s t)) as [r'|]; [destruct (res_eqb r r')|];
    rewrite ?erase_with_linbad, erase_set_thread; reflexivity.
Qed.

(* ghost-only operations vanish *)
Definition ghost_only (f : st -> st * res) : Prop := forall s, erase (fst (f s)) = erase s.
Lemma erase_set_abs s l v : erase (set_abs s l v) = erase s.
Proof.
  unfold set_abs, upd_list, with_lists, erase; simpl. f_equal.
  rewrite map_set_nth. simpl.
  assert (E : forall n (ls : list lrec) r, er_l r = er_l (nth n ls lnil) -> set_nth n (er_l r) (map er_l ls) = map er_l ls).
  { induction n; intros [|y ls] r H; simpl in *; auto; [now rewrite H|]. f_equal. now apply IHn. }
  apply (E l (lists s) (lr_abs v (lst s l))). reflexivity.
Qed.
Lemma erase_upd_alatch s l b : erase (upd_list s l (lr_alatch b)) = erase s.
Proof.
  unfold upd_list, with_lists, erase; simpl. f_equal. rewrite map_set_nth.
  assert (E : forall n (ls : list lrec) r, er_l r = er_l (nth n ls lnil) -> set_nth n (er_l r) (map er_l ls) = map er_l ls).
  { induction n; intros [|y ls] r H; simpl in *; auto; [now rewrite H|]. f_equal. now apply IHn. }
  apply (E l (lists s) (lr_alatch b (lst s l))). reflexivity.
Qed.
Lemma ghost_only_push_back b : ghost_only (spec_push_back b).
Proof. intros s. apply erase_set_abs. Qed.
Lemma ghost_only_push_front b : ghost_only (spec_push_front b).
Proof. intros s. unfold spec_push_front. destruct (l_alatch (lst s 0)); simpl; [reflexivity|apply erase_set_abs]. Qed.
Lemma ghost_only_pop l : ghost_only (spec_pop l).
Proof. intros s. unfold spec_pop. destruct (abs s l); simpl; [reflexivity|apply erase_set_abs]. Qed.
Lemma ghost_only_remove a : ghost_only (spec_remove a).
Proof.
  intros s. unfold spec_remove. destruct (existsb _ (lists s)); simpl; [|reflexivity].
  unfold erase; simpl. f_equal. rewrite map_map. apply map_ext. intros r. reflexivity.
Qed.
Lemma ghost_only_latch_drain t : ghost_only (spec_latch_drain t).
Proof.
  intros s. unfold spec_latch_drain. destruct (l_alatch (lst s 0)); simpl; [reflexivity|].
  now rewrite erase_upd_alatch, !erase_set_abs.
Qed.
Lemma ghost_only_unlatch : ghost_only spec_unlatch.
Proof. intros s. unfold spec_unlatch. destruct (l_alatch (lst s 0)); simpl; [apply erase_upd_alatch|reflexivity]. Qed.
Lemma ghost_only_is_latched : ghost_only spec_is_latched.
Proof. intros s. reflexivity. Qed.
#[local] Hint Resolve ghost_only_push_back ghost_only_push_front ghost_only_pop ghost_only_remove
  ghost_only_latch_drain ghost_only_unlatch ghost_only_is_latched : keep.
Lemma erase_lin s t f : ghost_only f -> erase (lin s t f) = erase s.
Proof.
  intros G. unfold lin. specialize (G s). destruct (f s) as [s1 r]. simpl in G.
  assert (A : erase (set_thread s1 t {| prog := prog (cur s1 t); tpc := tpc (cur s1 t); t_lin := Some r |}) = erase s1).
  { rewrite erase_set_thread. unfold set_thread, with_thr, erase; simpl. f_equal.
    assert (E : forall n (ts : list thread) th, er_t th = er_t (nth n ts tnil) -> set_nth n (er_t th) (map er_t ts) = map er_t ts).
    { induction n; intros [|y ts] th H; simpl in *; auto; [now rewrite H|]. f_equal. now apply IHn. }
    apply E. reflexivity. }
  destruct (t_lin (cur s1 t)); rewrite ?erase_with_linbad, A; exact G.
Qed.

Definition er_out (o : option (st * list ev)) : option (st * list ev) :=
  match o with Some (s', e) => Some (erase s', e) | None => None end.

#[local] Hint Rewrite erase_idem erase_upd_node erase_set_link_val erase_set_link_lock erase_unlock
  erase_set_self erase_with_uaf erase_with_crash erase_with_linbad erase_with_embad
  erase_touch_node erase_touch_link erase_touch_obj erase_set_pc erase_set_prog erase_ret : er.
#[local] Hint Rewrite erase_lin using (solve [auto with keep]) : er.
#[local] Hint Rewrite erase_upd_list using (solve [auto with keep]) : er.

Ltac obs :=
  rewrite ?lst_erase, ?node_erase, ?link_val_erase, ?link_lock_erase, ?is_locked_erase,
    ?get_self_erase, ?valid_link_erase, ?cur_erase, ?valid_node_erase, ?fresh_erase;
  cbn [er_l er_t l_head l_lock l_sself l_lself prog tpc].
Ltac fin_er := cbn [er_out]; try reflexivity; f_equal; f_equal; autorewrite with er; reflexivity.
Ltac cases :=
  repeat match goal with
         | |- context [match ?x with _ => _ end] =>
             lazymatch x with
             | context [erase] => fail
             | _ => destruct x eqn:?
             end
         end.

Lemma acquire_erase s t k :
  acquire (erase s) t k =
  match acquire s t k with Some (v, s1) => Some (v, set_link_lock (erase s) k (Some t)) | None => None end.
Proof.
  unfold acquire. rewrite valid_link_erase, link_lock_erase, link_val_erase.
  destruct (valid_link s k); [|reflexivity]. destruct (link_lock s k); reflexivity.
Qed.
Lemma acquire_state s t k v s1 : acquire s t k = Some (v, s1) -> s1 = set_link_lock s k (Some t).
Proof.
  unfold acquire. destruct (valid_link s k); [|discriminate]. destruct (link_lock s k); [discriminate|].
  intros H; inversion H; reflexivity.
Qed.

Lemma start_erase s t o : er_out (start (erase s) t o) = er_out (start s t o).
Proof.
  destruct o; unfold start, do_pr0; rewrite ?acquire_erase; obs.
  all: cases; try (match goal with E : acquire _ _ _ = Some _ |- _ => apply acquire_state in E; subst end);
    try fin_er.
  all: destruct (empty_ok (erase s) _); fin_er.
Qed.

Theorem step_erase t s : er_out (step t (erase s)) = er_out (step t s).
Proof.
  unfold step. unfold erase at 1. cbn [thr]. rewrite nth_error_map.
  destruct (nth_error (thr s) t) as [th|]; [|reflexivity]. cbn [option_map er_t tpc prog].
  destruct (tpc th).
  1: { destruct (prog th) as [|o r]; [reflexivity|].
       rewrite <- erase_set_prog. apply start_erase. }
  1: reflexivity.
  all: unfold do_pr0; rewrite ?acquire_erase; obs.
  all: cases; try (match goal with E : acquire _ _ _ = Some _ |- _ => apply acquire_state in E; subst end);
    try fin_er.
Qed.

(* the specification ghosts do not influence what the model does: two states that agree up to
   them take the same steps with the same events, for every schedule *)
Lemma step_erase_eqv t a b : erase a = erase b -> er_out (step t a) = er_out (step t b).
Proof. intros H. rewrite <- (step_erase t a), <- (step_erase t b), H. reflexivity. Qed.

Theorem run_erase sched a b tr :
  erase a = erase b ->
  erase (fst (run step sched (a, tr))) = erase (fst (run step sched (b, tr))) /\
  snd (run step sched (a, tr)) = snd (run step sched (b, tr)).
Proof.
  revert a b tr. induction sched as [|t sched IH]; intros a b tr H; [split; [exact H|reflexivity]|].
  rewrite !run_cons. unfold step_conf. cbn [fst snd].
  pose proof (step_erase_eqv t a b H) as E.
  destruct (step t a) as [[a' ea]|], (step t b) as [[b' eb]|]; cbn [er_out] in E; try discriminate.
  - apply some_pair_inv in E. destruct E as [E1 E2]. rewrite E2. apply IH. symmetry. exact E1.
  - apply IH. assumption.
Qed.

(* Outside the interface the soundness argument of try_lock_checking breaks (ABA on the value
   of lk): push_back reads head_ = &sentinel_latch_ while the list is latched, the list is
   unlatched (its check of sentinel_.self passes) and latched again, and the CAS succeeds on the
   latched list: the node is pushed, the latch is silently lost (head_ -> n0 although the list
   was latched last), sentinel_latch_.self is stale.  No crash, every thread finishes. *)
Theorem try_lock_checking_aba_outside_interface :
  exists sched,
    let s := final 1 [[B 0]; [D; U; D]] sched in
    quiescent s = true /\ crash s = false /\
    l_alatch (lst s 0) = true /\ l_head (lst s 0) = PNode 0 /\ l_lself (lst s 0) = Some (LHead 0).
Proof.
  exists [0;0;0; 1;1;1;1; 0; 1;1;1;1; 0; 1;1;1;1; 0;0;0;0]. vm_compute. repeat split.
Qed.

(* ------------------------------------------------------------------------------------------ *)
(* SUMMARY - what is proved, and at which generality.

   PARAMETRIC (all numbers of nodes and threads, all programs over the operations, all schedules):
     lock_discipline / lock_exclusive   (1c) the lock word of every link agrees with the program
                                        points; a link is never held by two threads; held links
                                        are links of the memory; no self-deadlock on a link.
     step_erase / run_erase             the specification ghosts (abstract lists, latch, t_lin,
                                        linbad, embad) never influence a step or an event.
     no_access_after_hand_back_refuted, no_access_after_hand_back_refuted_event   (5) witnesses.
     empty_linearizable_refuted         empty() is not linearisable (its guarantee is the flag
                                        embad, see AtomicListDefs.v).

   PER INSTANCE (14 programs of 3-4 threads over 2-3 nodes, list [instances]; the COMPLETE
   reachable set of each is computed in Coq, proved closed under step, and the predicates are
   evaluated on every member - a complete invariant of that instance, valid for every schedule,
   but NOT a statement about all programs):
     structure_partial    (1)   accounting_partial  (2,3)   refinement_partial  (4)
     progress_partial     (6)   no_null_link_partial

   NOT PROVED - the parametric statements these stand for (kept here as the goal):

   Theorem structure : forall nn progs sched,
     interface_ok progs ->                       (* a node is pushed by one thread; push_back is not
                                                    mixed with latch_and_drain *)
     struct_ok (fst (run step sched (init nn progs, []))) = true.
   Theorem accounting : forall nn progs sched, interface_ok progs ->
     account_ok (fst (run step sched (init nn progs, []))) = true.
   Theorem refinement : forall nn progs sched, interface_ok progs ->
     refine_ok (fst (run step sched (init nn progs, []))) = true.
   Theorem progress : forall nn progs sched, interface_ok progs ->
     progress_ok (fst (run step sched (init nn progs, []))) = true.

   What is missing for them: an inductive invariant with one assertion per program point about
   the links the thread holds (values, and WHICH objects' self fields name them), the ownership
   discipline "the lock of L protects L's pointer and the self field of its target" as the
   rely/guarantee between threads, and - the hard part - the soundness of try_lock_checking:
   when its CAS succeeds in push_back / latch_and_drain, the monitored sentinel_.self still names
   the link.  That needs a history argument (the value seen unlocked before the last check of
   `monitored` cannot recur once `monitored` moved away: nodes are pushed once, chains only
   move from the shared list to a target list) and is FALSE without the interface restrictions:
   with push_back on a latchable list the value &sentinel_latch_ recurs in head_ and the CAS
   succeeds on a latched list (sentinel_.self = nullptr); with re-used node storage a re-pushed
   predecessor recurs (the ABA of finding (5)).  try_remove is immune: it re-reads item.self
   after the lock is taken.
   The instances above include every pair of operations of the two usage profiles racing on
   1-3 nodes, which is where these arguments are exercised. *)
