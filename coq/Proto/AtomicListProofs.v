(* Proofs about the AtomicList model (AtomicListDefs.v).
   Part A  decidable equality, complete-reachability certificates (per instance).
   Part B  the state predicates: structure (1), accounting (2,3), refinement flags (4), progress (6).
   Part C  instances and their certificates; the theorems for ALL schedules of those instances.
   Part D  refutations: access after hand-back (5), empty() not linearisable, misuse crash.
   Part E  parametric facts (all programs, all sizes, all schedules): erasure of the
           specification ghosts, lock discipline.
   See the summary at the end of the file for what is parametric and what is per instance. *)
From Coq Require Import List Bool Arith Lia PArith FMapPositive.
From V Require Import Base.Sched Proto.AtomicListDefs.
Import ListNotations.
Import AtomicList.

(* ------------------------------------------------------------------------------------------ *)
(* Part A: equality, certificates                                                               *)

Definition link_eq_dec (a b : link) : {a = b} + {a <> b}. Proof. decide equality; apply Nat.eq_dec. Defined.
Definition ptr_eq_dec (a b : ptr) : {a = b} + {a <> b}. Proof. decide equality; apply Nat.eq_dec. Defined.
Definition op_eq_dec (a b : op) : {a = b} + {a <> b}.
Proof. decide equality; try apply Nat.eq_dec; apply Bool.bool_dec. Defined.
Definition res_eq_dec (a b : res) : {a = b} + {a <> b}.
Proof. decide equality; try apply Nat.eq_dec; apply Bool.bool_dec. Defined.
Definition kont_eq_dec (a b : kont) : {a = b} + {a <> b}.
Proof. decide equality; try apply Nat.eq_dec; apply ptr_eq_dec. Defined.
Definition pc_eq_dec (a b : pc) : {a = b} + {a <> b}.
Proof.
  decide equality; try apply Nat.eq_dec; try apply link_eq_dec; try apply ptr_eq_dec;
    try apply kont_eq_dec; apply Bool.bool_dec.
Defined.
Definition olink_eq_dec (a b : option link) : {a = b} + {a <> b}.
Proof. decide equality; apply link_eq_dec. Defined.
Definition onat_eq_dec (a b : option nat) : {a = b} + {a <> b}.
Proof. decide equality; apply Nat.eq_dec. Defined.
Definition nrec_eq_dec (a b : nrec) : {a = b} + {a <> b}.
Proof. decide equality; try apply Bool.bool_dec; try apply onat_eq_dec; try apply ptr_eq_dec; apply olink_eq_dec. Defined.
Definition lrec_eq_dec (a b : lrec) : {a = b} + {a <> b}.
Proof.
  decide equality; try apply Bool.bool_dec; try apply onat_eq_dec; try apply ptr_eq_dec;
    try apply olink_eq_dec; apply (list_eq_dec Nat.eq_dec).
Defined.
Definition ores_eq_dec (a b : option res) : {a = b} + {a <> b}.
Proof. decide equality; apply res_eq_dec. Defined.
Definition thread_eq_dec (a b : thread) : {a = b} + {a <> b}.
Proof. decide equality; try apply ores_eq_dec; try apply pc_eq_dec; apply (list_eq_dec op_eq_dec). Defined.
Definition st_eq_dec (a b : st) : {a = b} + {a <> b}.
Proof.
  decide equality; try apply Bool.bool_dec;
    [apply (list_eq_dec thread_eq_dec) | apply (list_eq_dec lrec_eq_dec) | apply (list_eq_dec nrec_eq_dec)].
Defined.
Definition st_eqb (a b : st) : bool := if st_eq_dec a b then true else false.
Lemma st_eqb_eq a b : st_eqb a b = true -> a = b.
Proof. unfold st_eqb. destruct (st_eq_dec a b); [auto|discriminate]. Qed.

(* a hash into positive (no injectivity needed: membership compares the stored state) *)
Fixpoint h_nat (n : nat) (p : positive) : positive :=
  match n with O => xO p | S m => xI (h_nat m p) end.
Definition h_link (k : link) p := match k with LHead l => h_nat 0 (h_nat l p) | LRest n => h_nat 1 (h_nat n p) end.
Definition h_ptr (x : ptr) p :=
  match x with PNull => h_nat 0 p | PNode n => h_nat 1 (h_nat n p) | PSent l => h_nat 2 (h_nat l p) | PLatch l => h_nat 3 (h_nat l p) end.
Definition h_bool (b : bool) p := if b then xI p else xO p.
Definition h_opt {A} (h : A -> positive -> positive) (o : option A) p :=
  match o with None => xO p | Some a => xI (h a p) end.
Fixpoint h_list {A} (h : A -> positive -> positive) (l : list A) p :=
  match l with [] => xO p | a :: r => xI (h a (h_list h r p)) end.
Definition h_op (o : op) p :=
  match o with
  | OPushBack b => h_nat 0 (h_nat b p) | OPushFront b => h_nat 1 (h_nat b p)
  | OPop c => h_nat 2 (h_bool c p) | ORemove a => h_nat 3 (h_nat a p)
  | OLatchDrain => h_nat 4 p | OUnlatch => h_nat 5 p | OIsLatched => h_nat 6 p | OEmpty => h_nat 7 p
  end.
Definition h_res (r : res) p :=
  match r with RUnit => h_nat 0 p | RNone => h_nat 1 p | RNode n => h_nat 2 (h_nat n p) | RBool b => h_nat 3 (h_bool b p) end.
Definition h_kont (c : kont) p :=
  match c with KPush b => h_nat 0 (h_nat b p) | KRem a => h_nat 1 (h_nat a p) | KDrain h => h_nat 2 (h_ptr h p) end.
Definition h_pc (c : pc) p :=
  match c with
  | PIdle => h_nat 0 p | PCrash => h_nat 1 p
  | PB1 b => h_nat 2 (h_nat b p) | PB2 b k => h_nat 3 (h_nat b (h_link k p))
  | PB3 b k => h_nat 4 (h_nat b (h_link k p)) | PB4 b k => h_nat 5 (h_nat b (h_link k p))
  | PT0 c k => h_nat 6 (h_kont c (h_link k p)) | PT1 c k => h_nat 7 (h_kont c (h_link k p))
  | PT2 c k => h_nat 8 (h_kont c (h_link k p)) | PT3 c k v => h_nat 9 (h_kont c (h_link k (h_ptr v p)))
  | PT4 c k v => h_nat 10 (h_kont c (h_link k (h_ptr v p)))
  | PP1 l v => h_nat 11 (h_nat l (h_ptr v p)) | PP2 l a => h_nat 12 (h_nat l (h_nat a p))
  | PP3 l a v => h_nat 13 (h_nat l (h_nat a (h_ptr v p))) | PP4 l a v => h_nat 14 (h_nat l (h_nat a (h_ptr v p)))
  | PP5 l a v => h_nat 15 (h_nat l (h_nat a (h_ptr v p))) | PP6 a => h_nat 16 (h_nat a p)
  | PR0 a => h_nat 17 (h_nat a p) | PR1 a k v => h_nat 18 (h_nat a (h_link k (h_ptr v p)))
  | PR1u a k v z => h_nat 19 (h_nat a (h_link k (h_ptr v (h_bool z p))))
  | PR2 a k => h_nat 20 (h_nat a (h_link k p)) | PR3 a k v => h_nat 21 (h_nat a (h_link k (h_ptr v p)))
  | PR4 a k v => h_nat 22 (h_nat a (h_link k (h_ptr v p))) | PR5 a k v => h_nat 23 (h_nat a (h_link k (h_ptr v p)))
  | PR6 a => h_nat 24 (h_nat a p)
  | PF1 v => h_nat 25 (h_ptr v p) | PF2 b v => h_nat 26 (h_nat b (h_ptr v p)) | PF3 b v => h_nat 27 (h_nat b (h_ptr v p))
  | PF4 b => h_nat 28 (h_nat b p) | PF5 b => h_nat 29 (h_nat b p)
  | PL1 v => h_nat 30 (h_ptr v p) | PLe1 => h_nat 31 p | PLe2 => h_nat 32 p | PLe3 => h_nat 33 p
  | PL2 h => h_nat 34 (h_ptr h p) | PL3 h k => h_nat 35 (h_ptr h (h_link k p)) | PL4 h k => h_nat 36 (h_ptr h (h_link k p))
  | PL5 h k => h_nat 37 (h_ptr h (h_link k p)) | PL6 h k => h_nat 38 (h_ptr h (h_link k p))
  | PL7 h k => h_nat 39 (h_ptr h (h_link k p)) | PL8 k => h_nat 40 (h_link k p) | PL9 => h_nat 41 p
  | PU1 => h_nat 42 p | PU2 => h_nat 43 p | PU3 => h_nat 44 p | PU4 v => h_nat 45 (h_ptr v p)
  end.
Definition h_nrec (r : nrec) p :=
  h_opt h_link (n_self r) (h_ptr (n_rest r) (h_opt h_nat (n_lock r) (h_bool (n_used r) (h_bool (n_freed r) p)))).
Definition h_lrec (r : lrec) p :=
  h_ptr (l_head r) (h_opt h_nat (l_lock r) (h_opt h_link (l_sself r) (h_opt h_link (l_lself r)
    (h_list h_nat (l_abs r) (h_bool (l_alatch r) p))))).
Definition h_thread (t : thread) p := h_list h_op (prog t) (h_pc (tpc t) (h_opt h_res (t_lin t) p)).
Definition h_st (s : st) : positive :=
  h_list h_nrec (nodes s) (h_list h_lrec (lists s) (h_list h_thread (thr s)
    (h_bool (uaf s) (h_bool (crash s) (h_bool (linbad s) (h_bool (embad s) xH)))))).

Definition smap := PositiveMap.t st.
Definition memb (s : st) (m : smap) : bool :=
  match PositiveMap.find (h_st s) m with Some s' => st_eqb s s' | None => false end.

Definition succs (s : st) : list st :=
  flat_map (fun t => match step t s with Some (s', _) => [s'] | None => [] end) (seq 0 (length (thr s))).

Fixpoint explore (fuel : nat) (m : smap) (todo : list st) : smap * list st :=
  match fuel with
  | O => (m, todo)
  | S f =>
    match todo with
    | [] => (m, [])
    | s :: r =>
      let k := h_st s in
      match PositiveMap.find k m with
      | Some _ => explore f m r
      | None => explore f (PositiveMap.add k s m) (succs s ++ r)
      end
    end
  end.
Fixpoint explore_n (n : nat) (chunk : nat) (x : smap * list st) : smap :=
  match n with
  | O => fst x
  | S n' => match snd x with [] => fst x | _ => explore_n n' chunk (explore chunk (fst x) (snd x)) end
  end.
Definition reach (s0 : st) : smap := explore_n 4000 4000 (PositiveMap.empty st, [s0]).
Definition states (m : smap) : list st := map snd (PositiveMap.elements m).
Definition closed (m : smap) : bool := forallb (fun s => forallb (fun s' => memb s' m) (succs s)) (states m).

Lemma memb_In s m : memb s m = true -> In s (states m).
Proof.
  unfold memb, states. destruct (PositiveMap.find (h_st s) m) as [s'|] eqn:E; [|discriminate].
  intros H. apply st_eqb_eq in H. subst s'.
  apply PositiveMap.elements_correct in E. apply (in_map snd) in E. exact E.
Qed.

Lemma step_tid t s : length (thr s) <= t -> step t s = None.
Proof.
  intros H. unfold step. apply nth_error_None in H. rewrite H. reflexivity.
Qed.

Lemma succs_step t s s' evs : step t s = Some (s', evs) -> In s' (succs s).
Proof.
  intros H. unfold succs. apply in_flat_map. exists t. split.
  - apply in_seq. split; [lia|]. simpl.
    destruct (le_lt_dec (length (thr s)) t) as [L|L]; [|exact L].
    rewrite (step_tid _ _ L) in H. discriminate.
  - rewrite H. left. reflexivity.
Qed.

Theorem reach_inv (m : smap) (s0 : st) :
  memb s0 m = true -> closed m = true ->
  forall sched tr, In (fst (run step sched (s0, tr))) (states m).
Proof.
  intros H0 Hc sched tr.
  apply (run_invariant_state st nat ev step (fun s => In s (states m))).
  - intros s t s' evs Hin Hs. unfold closed in Hc. rewrite forallb_forall in Hc.
    specialize (Hc s Hin). rewrite forallb_forall in Hc.
    apply memb_In. apply Hc. eapply succs_step; eauto.
  - simpl. apply memb_In. exact H0.
Qed.

(* certificate: the reachable set of s0 is closed, contains s0, and P holds on every member *)
Definition certify (s0 : st) (P : st -> bool) : bool :=
  let m := reach s0 in memb s0 m && closed m && forallb P (states m).

Theorem certify_sound s0 P :
  certify s0 P = true -> forall sched tr, P (fst (run step sched (s0, tr))) = true.
Proof.
  unfold certify. intros H sched tr.
  apply andb_true_iff in H. destruct H as [H HP]. apply andb_true_iff in H. destruct H as [H0 Hc].
  rewrite forallb_forall in HP. apply HP. apply reach_inv; assumption.
Qed.

(* ------------------------------------------------------------------------------------------ *)
(* Part B: the state predicates (executable)                                                    *)

(* links whose lock bit thread t holds at program point p *)
Definition held (t : nat) (p : pc) : list link :=
  match p with
  | PB2 _ k | PB3 _ k | PB4 _ k => [k]
  | PP1 l _ | PP2 l _ => [LHead l]
  | PP3 l a _ | PP4 l a _ | PP5 l a _ => [LHead l; LRest a]
  | PP6 a => [LRest a]
  | PR1 _ k _ | PR1u _ k _ _ | PR2 _ k => [k]
  | PR3 a k _ | PR4 a k _ | PR5 a k _ => [k; LRest a]
  | PR6 a => [LRest a]
  | PF1 _ | PF2 _ _ | PF3 _ _ | PF4 _ | PF5 _ => [LHead 0]
  | PL1 _ | PLe1 | PLe2 | PLe3 | PL2 _ | PL9 => [LHead 0]
  | PT0 (KDrain _) _ | PT1 (KDrain _) _ | PT2 (KDrain _) _ | PT3 (KDrain _) _ _ | PT4 (KDrain _) _ _ => [LHead 0]
  | PL3 _ k | PL4 _ k | PL5 _ k | PL6 _ k | PL7 _ k | PL8 k => [LHead 0; k]
  | PU1 | PU2 | PU3 | PU4 _ => [LHead 0]
  | _ => []
  end.

Definition all_links (s : st) : list link :=
  map LHead (seq 0 (length (lists s))) ++ map LRest (seq 0 (length (nodes s))).
Definition tids (s : st) : list nat := seq 0 (length (thr s)).
Definition mem_link (k : link) (l : list link) : bool := existsb (link_eqb k) l.

(* lock discipline: the holder recorded in a lock word is a thread whose program point holds that
   link, and every link a program point holds is locked by that thread (so two threads are never
   at program points that hold the same link) *)
Definition locks_ok (s : st) : bool :=
  forallb (fun k => match link_lock s k with
                    | Some u => Nat.ltb u (length (thr s)) && mem_link k (held u (tpc (cur s u)))
                    | None => true
                    end) (all_links s)
  && forallb (fun u => forallb (fun k => valid_link s k &&
                                         match link_lock s k with Some u' => Nat.eqb u u' | None => false end)
                               (held u (tpc (cur s u)))) (tids s).

(* the value a locked link is going to receive from its holder, once that is decided: from the
   linearising / claiming store on, the chain is read through these *)
Definition pend (s : st) (k : link) : option ptr :=
  match link_lock s k with
  | None => None
  | Some u =>
    match tpc (cur s u) with
    | PB4 b k' => if link_eqb k k' then Some (PNode b) else None
    | PP5 l a rv => if link_eqb k (LHead l) then Some rv else if link_eqb k (LRest a) then Some PNull else None
    | PP6 a => if link_eqb k (LRest a) then Some PNull else None
    | PR5 a k' rv => if link_eqb k k' then Some rv else if link_eqb k (LRest a) then Some PNull else None
    | PR6 a => if link_eqb k (LRest a) then Some PNull else None
    | PF4 b | PF5 b => if link_eqb k (LHead 0) then Some (PNode b) else None
    | PL8 k' => if link_eqb k k' then Some (PSent (S u)) else if link_eqb k (LHead 0) then Some (PLatch 0) else None
    | PL9 => if link_eqb k (LHead 0) then Some (PLatch 0) else None
    | _ => None
    end
  end.
(* the target list of a drain is private to the drainer until it stores first.self: its head
   word is written one step earlier (PL6) and is not yet part of the structure *)
Definition drain_private (s : st) (l : nat) : bool :=
  match l with
  | O => false
  | S u => match tpc (cur s u) with PL6 _ _ | PL7 _ _ => true | _ => false end
  end.
Definition eff (s : st) (k : link) : ptr :=
  match pend s k with
  | Some v => v
  | None => match k with
            | LHead (S u) => match tpc (cur s u) with PL7 _ _ => PSent (S u) | _ => link_val s k end
            | _ => link_val s k
            end
  end.

(* the chain of list l: nodes with the link holding each, and the terminal pointer *)
Fixpoint ewalk (s : st) (fuel : nat) (k : link) : list (link * nat) * ptr :=
  match fuel with
  | O => ([], PNull)
  | S f => match eff s k with
           | PNode n => let (c, e) := ewalk s f (LRest n) in ((k, n) :: c, e)
           | p => ([], p)
           end
  end.
Definition echain (s : st) (l : nat) := ewalk s (S (length (nodes s))) (LHead l).
Definition chain_nodes (s : st) (l : nat) : list nat := map snd (fst (echain s l)).
Definition tail_link (s : st) (l : nat) : link :=
  match rev (fst (echain s l)) with [] => LHead l | (_, n) :: _ => LRest n end.
Definition lids (s : st) : list nat := seq 0 (length (lists s)).
Definition all_chain_nodes (s : st) : list nat := flat_map (chain_nodes s) (lids s).

Fixpoint nodupb (l : list nat) : bool :=
  match l with [] => true | x :: r => negb (mem_nat x r) && nodupb r end.

(* (1) structure *)
Definition chain_ok (s : st) (l : nat) : bool :=
  let (c, e) := echain s l in
  (ptr_eqb e (PSent l) || (ptr_eqb e (PLatch l) && match c with [] => true | _ => false end))
  && forallb (fun kn => let n := snd kn in
                        Nat.ltb n (length (nodes s)) && n_used (node s n) && negb (n_freed (node s n))
                        && (olink_eqb (n_self (node s n)) (Some (fst kn)) || is_locked s (fst kn))) c
  && (if ptr_eqb e (PSent l)
      then olink_eqb (l_sself (lst s l)) (Some (tail_link s l)) || is_locked s (tail_link s l)
           || drain_private s l
      else true)
  && (if ptr_eqb e (PLatch l)
      then (olink_eqb (l_sself (lst s l)) None && olink_eqb (l_lself (lst s l)) (Some (LHead l)))
           || is_locked s (LHead l)
      else true).
Definition unlinked_ok (s : st) : bool :=
  forallb (fun n => mem_nat n (all_chain_nodes s) ||
                    match n_self (node s n) with None => true | Some k => is_locked s k end)
          (seq 0 (length (nodes s))).
Definition struct_ok (s : st) : bool :=
  forallb (chain_ok s) (lids s) && nodupb (all_chain_nodes s) && unlinked_ok s && locks_ok s.

(* (2,3) accounting: where a node that has been pushed is *)
Definition private_of (p : pc) : option nat :=      (* pushed by this thread, not yet in a chain *)
  match p with
  | PB1 b | PB2 b _ | PB3 b _ => Some b
  | PT0 (KPush b) _ | PT1 (KPush b) _ | PT2 (KPush b) _ | PT3 (KPush b) _ _ | PT4 (KPush b) _ _ => Some b
  | PF2 b _ | PF3 b _ => Some b
  | _ => None
  end.
Definition taken_of (p : pc) : option nat :=        (* unlinked by this thread, not yet returned *)
  match p with
  | PP5 _ a _ | PP6 a | PR5 a _ _ | PR6 a => Some a
  | _ => None
  end.
Definition count_nat (n : nat) (l : list nat) : nat := length (filter (Nat.eqb n) l).
Definition opt_list (o : option nat) : list nat := match o with Some x => [x] | None => [] end.
Definition where_count (s : st) (n : nat) : nat :=
  count_nat n (all_chain_nodes s)
  + count_nat n (flat_map (fun t => opt_list (private_of (tpc t))) (thr s))
  + count_nat n (flat_map (fun t => opt_list (taken_of (tpc t))) (thr s))
  + (if n_freed (node s n) then 1 else 0).
Definition account_ok (s : st) : bool :=
  forallb (fun n => Nat.eqb (where_count s n) (if n_used (node s n) then 1 else 0))
          (seq 0 (length (nodes s))).

(* (4) refinement flags; at quiescence the abstract state is the memory's *)
Definition quiet_ok (s : st) : bool :=
  if quiescent s then
    forallb (fun l => (if list_eq_dec Nat.eq_dec (chain_nodes s l) (l_abs (lst s l)) then true else false)
                      && Bool.eqb (l_alatch (lst s l)) (ptr_eqb (l_head (lst s l)) (PLatch l))
                      && match l_lock (lst s l) with None => true | Some _ => false end) (lids s)
  else true.
Definition refine_ok (s : st) : bool := negb (linbad s) && negb (embad s) && quiet_ok s.

(* (6) progress: a thread is waiting when it spins in try_lock_checking on a locked link whose
   monitored pointer still names it; some thread that is not waiting can move, unless all are done *)
Definition waiting (s : st) (t : nat) : bool :=
  match tpc (cur s t) with
  | PT1 c k | PT2 c k => is_locked s k && olink_eqb (get_self s (mon_of c)) (Some k)
  | _ => false
  end.
Definition progress_ok (s : st) : bool :=
  quiescent s ||
  existsb (fun t => negb (waiting s t) && match step t s with Some _ => true | None => false end) (tids s).

Definition safe_ok (s : st) : bool := negb (crash s).
Definition all_ok (s : st) : bool := struct_ok s && account_ok s && refine_ok s && progress_ok s && safe_ok s.
Definition nouaf_ok (s : st) : bool := negb (uaf s).

(* ------------------------------------------------------------------------------------------ *)
(* Part C: instances.  Each is (number of nodes, programs); its complete reachable set is
   computed, proved closed under every thread's step, and all_ok is evaluated on every member.
   The theorems below hold for EVERY schedule (any length, any thread ids) of these instances;
   they are complete invariants of the instances, not of the protocol for all programs. *)
Definition B := OPushBack.
Definition F := OPushFront.
Definition R := ORemove.
Definition P := OPop false.
Definition Q := OPop true.
Definition D := OLatchDrain.
Definition U := OUnlatch.
Definition L := OIsLatched.
Definition E := OEmpty.

Definition instances : list (nat * list (list op)) :=
  [ (* the async_mutex profile *)
    (2, [[B 0]; [P]; [B 1]]);
    (2, [[B 0; B 1]; [P; P]; [E]]);
    (2, [[B 0]; [B 1]; [P; E; P]]);
    (2, [[B 0; B 1]; [R 0]; [P]]);
    (3, [[B 0; B 1]; [R 1; P]; [B 2; R 0]]);
    (3, [[B 0; B 1; B 2]; [R 1]; [P; P]]);
    (3, [[B 0; F 1]; [P; E]; [R 0; B 2]]);
    (3, [[B 0; B 1]; [P]; [R 1]; [B 2; E]]);
    (* the async_manual_reset_event profile *)
    (2, [[F 0]; [F 1]; [D; Q; Q]]);
    (2, [[F 0; F 1]; [D; Q; Q]; [R 0; L]]);
    (3, [[F 0; F 1]; [D; Q; Q; Q]; [R 0; U; F 2]]);
    (3, [[F 0; F 1; F 2]; [D; Q; Q]; [R 1; R 0]]);
    (3, [[F 0; F 1]; [R 0; R 1; E]; [D; Q; F 2]]);
    (3, [[F 0; F 1]; [D; Q; Q]; [R 1]; [F 2; L; E]]) ].

Definition inst_init (i : nat * list (list op)) : st := init (fst i) (snd i).

Lemma instances_certified : forallb (fun i => certify (inst_init i) all_ok) instances = true.
Proof. vm_cast_no_check (eq_refl true). Qed.

Lemma instance_all_ok i sched :
  In i instances -> all_ok (fst (run step sched (inst_init i, []))) = true.
Proof.
  intros Hi. pose proof instances_certified as H. rewrite forallb_forall in H.
  apply (certify_sound _ _ (H i Hi)).
Qed.

Section Instances.
  Variable i : nat * list (list op).
  Hypothesis Hi : In i instances.
  Variable sched : list nat.
  Let s := fst (run step sched (inst_init i, [])).

  Lemma all_ok_split :
    struct_ok s = true /\ account_ok s = true /\ refine_ok s = true /\ progress_ok s = true /\ safe_ok s = true.
  Proof.
    pose proof (instance_all_ok i sched Hi) as H. change (all_ok s = true) in H. unfold all_ok in H.
    do 4 (apply andb_true_iff in H; destruct H as [H ?]). repeat split; assumption.
  Qed.

  (* (1) structure: every list's chain (read through the stores already decided by the holders
     of locked links) ends in its own sentinel - or is empty and ends in the latch sentinel -,
     no node occurs twice in or across chains, every chained node is pushed and not handed back,
     x.self names the link holding x unless that link is locked, a node outside every chain has
     self = null unless the link it names is locked, and the lock words agree with the program
     points (so no link is held by two threads). *)
  Theorem structure_partial : struct_ok s = true.
  Proof. apply all_ok_split. Qed.

  (* (2,3) every pushed node is in exactly one place: one position of one chain, or in the hands
     of its pusher, or in the hands of the one pop_front / try_remove that unlinked it, or handed
     back - exactly once; a node never pushed is nowhere. *)
  Theorem accounting_partial : account_ok s = true.
  Proof. apply all_ok_split. Qed.

  (* (4) every operation passed exactly one linearisation point and returned what the sequential
     list specification returned there; empty() stayed within its guarantee; when all threads
     are done the abstract lists and latch are what the memory holds. *)
  Theorem refinement_partial : refine_ok s = true.
  Proof. apply all_ok_split. Qed.

  (* (6) unless every thread is done, some thread that is not spinning in try_lock_checking can
     take a step: no deadlock, and the spinners are waiting for a thread that can move. *)
  Theorem progress_partial : progress_ok s = true.
  Proof. apply all_ok_split. Qed.

  Theorem no_null_link_partial : crash s = false.
  Proof. destruct all_ok_split as (_ & _ & _ & _ & H). unfold safe_ok in H. now apply negb_true_iff in H. Qed.
End Instances.

(* Prop reading of the lock discipline *)
Lemma mem_link_In k l : mem_link k l = true -> In k l.
Proof.
  unfold mem_link. rewrite existsb_exists. intros (x & Hx & He).
  assert (k = x); [|subst; exact Hx].
  destruct k, x; simpl in He; try discriminate; apply Nat.eqb_eq in He; now subst.
Qed.

Lemma locks_ok_exclusive s t u k :
  locks_ok s = true -> t < length (thr s) -> u < length (thr s) ->
  In k (held t (tpc (cur s t))) -> In k (held u (tpc (cur s u))) -> t = u.
Proof.
  unfold locks_ok. intros H Ht Hu Hkt Hku. apply andb_true_iff in H. destruct H as [_ H].
  rewrite forallb_forall in H.
  assert (A : forall x, x < length (thr s) -> In k (held x (tpc (cur s x))) -> link_lock s k = Some x).
  { intros x Hx Hk. specialize (H x). rewrite forallb_forall in H.
    assert (In x (tids s)) as Hin by (apply in_seq; lia).
    specialize (H Hin k Hk). apply andb_true_iff in H. destruct H as [_ H].
    destruct (link_lock s k) as [x'|]; [|discriminate]. apply Nat.eqb_eq in H. now subst. }
  pose proof (A t Ht Hkt) as A1. pose proof (A u Hu Hku) as A2. congruence.
Qed.

(* ------------------------------------------------------------------------------------------ *)
(* Part D: refutations                                                                          *)

Definition final (nn : nat) (progs : list (list op)) (sched : list nat) : st :=
  fst (run step sched (init nn progs, [])).

(* (5) "no operation touches a node after a successful pop_front / try_remove handed it back"
   is FALSE.  async_mutex profile: push_back(n1) reads sentinel_.self = &n0.rest and passes the
   first check of try_lock_checking; pop_front unlinks n0 and returns it; push_back loads n0.rest. *)
Definition uaf_sched_mutex : list nat := [0;0;0;0;0;0;0;0;0; 2;2;2; 1;1;1;1;1;1; 2].
Theorem no_access_after_hand_back_refuted :
  exists nn progs sched, uaf (final nn progs sched) = true /\ crash (final nn progs sched) = false.
Proof. exists 2, [[B 0]; [P]; [B 1]], uaf_sched_mutex. vm_compute. split; reflexivity. Qed.

(* event profile: latch_and_drain (what set() calls) looks for the tail link through
   sentinel_.self = &n1.rest; try_remove(n1) unlinks and returns n1; the drain loads n1.rest. *)
Definition uaf_sched_event : list nat := [0;0;0;0;0; 0;0;0;0;0; 0;0;0; 1;1;1;1;1;1;1;1;1;1;1; 0].
Theorem no_access_after_hand_back_refuted_event :
  exists sched, uaf (final 2 [[F 1; F 0; D]; [R 1]] sched) = true.
Proof. exists uaf_sched_event. vm_compute. reflexivity. Qed.

(* empty() is not linearisable: thread 1's own push_back(n1) has returned, nothing removes
   anything, and its empty() answers true (thread 0 sits between claim and unlock of head_). *)
Definition empty_sched : list nat := [0;0;0;0;0;0;0;0; 1;1;1;1;1;1;1;1;1].
Theorem empty_linearizable_refuted :
  exists sched,
    let s := final 2 [[B 0]; [B 1; E]] sched in
    cur s 1 = {| prog := [E]; tpc := PIdle; t_lin := None |} /\
    In 1 (chain_nodes s 0) /\ In 1 (abs s 0) /\
    exists s', step 1 s = Some (s', [ELdLink (LHead 0) (PSent 0) true; ERet (RBool true)]) /\ embad s' = false.
Proof.
  exists empty_sched. vm_compute. repeat split; auto. eexists. split; reflexivity.
Qed.

(* outside the interface: push_back on a latched list dereferences sentinel_.self = nullptr *)
Theorem push_back_on_latched_list_crashes :
  exists sched, crash (final 1 [[D; B 0]] sched) = true.
Proof. exists [0;0;0;0;0;0]. vm_compute. reflexivity. Qed.
