(* Proofs about the TimerQueue model (TimerQueueDefs.v): for every list of operations, every
   initial clock value and EVERY schedule (list of thread ids, including clock advances of any size
   and spurious wake-ups):
     never_early, exactly_once (at most once, counted in the trace; nothing lost at quiescence),
     unlinked_after_completion, order (sorted queue, FIFO among equal due times, the timer thread
     always takes the head), cancel_prompt, no_lost_wakeup. *)
From Coq Require Import ZArith List Bool Arith Lia Permutation Sorted.
From V Require Import Base.Sched Arith.SortedInsertDefs Arith.SortedInsertProofs Proto.TimerQueueDefs.
Import ListNotations.
Import TimerQueue.
Local Open Scope Z_scope.

(* ------------------------------------------------------------------------------------------- *)
(* lists                                                                                       *)

Lemma nth_set_nth_eq {A} : forall (l : list A) i x y,
  nth_error l i = Some y -> nth_error (set_nth i x l) i = Some x.
Proof.
  induction l as [|a l IH]; intros [|i] x y H; cbn in *; try discriminate; eauto.
Qed.

Lemma nth_set_nth_neq {A} : forall (l : list A) i j x,
  i <> j -> nth_error (set_nth i x l) j = nth_error l j.
Proof.
  induction l as [|a l IH]; intros [|i] [|j] x H; cbn; try reflexivity; try congruence.
  apply IH. congruence.
Qed.

Lemma length_set_nth {A} : forall (l : list A) i x, length (set_nth i x l) = length l.
Proof. induction l as [|a l IH]; intros [|i] x; cbn; auto. Qed.

(* number of queue entries of operation i *)
Definition cnt (i : nat) (l : list timer) : nat :=
  length (filter (fun x => Nat.eqb (id x) i) l).

Lemma cnt_cons : forall i x l, cnt i (x :: l) = ((if Nat.eqb (id x) i then 1 else 0) + cnt i l)%nat.
Proof. intros. unfold cnt. cbn. destruct (Nat.eqb (id x) i); reflexivity. Qed.

Lemma cnt_perm : forall i l l', Permutation l l' -> cnt i l = cnt i l'.
Proof.
  intros i l l' H. induction H; try reflexivity.
  - rewrite !cnt_cons. lia.
  - rewrite !cnt_cons. lia.
  - congruence.
Qed.

Lemma cnt_insert : forall i x l,
  cnt i (insert_timed x l) = ((if Nat.eqb (id x) i then 1 else 0) + cnt i l)%nat.
Proof. intros. rewrite <- (cnt_perm i _ _ (insert_timed_perm x l)). apply cnt_cons. Qed.

Lemma cnt_zero_notin : forall i l, cnt i l = 0%nat <-> ~ In i (map id l).
Proof.
  intros i l. induction l as [|x l IH].
  - cbn. tauto.
  - rewrite cnt_cons. cbn [map In]. destruct (Nat.eqb (id x) i) eqn:E.
    + apply Nat.eqb_eq in E. split; [discriminate | intros H; exfalso; apply H; left; exact E].
    + apply Nat.eqb_neq in E. cbn. rewrite IH. tauto.
Qed.

Lemma linkedb_cnt : forall i l, linkedb i l = true <-> (1 <= cnt i l)%nat.
Proof.
  intros i l. unfold linkedb. induction l as [|x l IH].
  - cbn. split; [discriminate | lia].
  - rewrite cnt_cons. cbn [existsb]. destruct (Nat.eqb (id x) i); cbn.
    + split; [lia | reflexivity].
    + exact IH.
Qed.

Lemma linkedb_false_cnt : forall i l, linkedb i l = false <-> cnt i l = 0%nat.
Proof.
  intros i l. pose proof (linkedb_cnt i l). destruct (linkedb i l).
  - split; [discriminate | intros E; assert (1 <= cnt i l)%nat by (apply H; reflexivity); lia].
  - split; [intros _|reflexivity]. destruct (cnt i l) eqn:E; [reflexivity|].
    assert (false = true) by (apply H; lia). discriminate.
Qed.

Lemma cnt_remove_other : forall i j l, i <> j -> cnt j (heap_remove i l) = cnt j l.
Proof.
  intros i j l Hij. induction l as [|x l IH]; cbn [heap_remove]; [reflexivity|].
  destruct (Nat.eqb (id x) i) eqn:E.
  - apply Nat.eqb_eq in E. rewrite cnt_cons.
    assert (Nat.eqb (id x) j = false) as -> by (apply Nat.eqb_neq; congruence). reflexivity.
  - rewrite !cnt_cons, IH. reflexivity.
Qed.

Lemma cnt_remove_same : forall i l, (1 <= cnt i l)%nat -> S (cnt i (heap_remove i l)) = cnt i l.
Proof.
  intros i l. induction l as [|x l IH]; cbn [heap_remove]; intros H.
  - cbn in H. lia.
  - rewrite cnt_cons in *. destruct (Nat.eqb (id x) i) eqn:E.
    + reflexivity.
    + rewrite cnt_cons, E. cbn in *. rewrite IH; [reflexivity|exact H].
Qed.

Lemma In_heap_remove : forall i l x, In x (heap_remove i l) -> In x l.
Proof.
  intros i l x. induction l as [|y l IH]; cbn [heap_remove]; [tauto|].
  destruct (Nat.eqb (id y) i); cbn [In]; tauto.
Qed.

Lemma cnt_nodup_le1 : forall i l, NoDup (map id l) -> (cnt i l <= 1)%nat.
Proof.
  intros i l. induction l as [|x l IH]; cbn [map]; intros H.
  - cbn. lia.
  - inversion H as [|a m Hn Hd]; subst. rewrite cnt_cons. specialize (IH Hd).
    destruct (Nat.eqb (id x) i) eqn:E; [|lia].
    apply Nat.eqb_eq in E. subst i. apply cnt_zero_notin in Hn. lia.
Qed.

(* ------------------------------------------------------------------------------------------- *)
(* the invariant                                                                                *)

Definition b2n (b : bool) : nat := if b then 1%nat else 0%nat.

(* who holds operation i outside the queue *)
Definition sholds (o : op) : bool :=
  match spc o with SReg | SRegRel | SCb | SEnqLock => true | _ => false end.
Definition cholds (o : op) : bool :=
  match cpc o with CUnlockRequeue | CEnqLock => true | _ => false end.
Definition tholds (i : nat) (p : tpc_t) : bool :=
  match p with
  | TUnlockExec k | TDeregLock k | TDeregRel k _ | TWaitCompleted k | TObsStop k => Nat.eqb k i
  | _ => false
  end.
Definition cidle (o : op) : bool := match cpc o with CIdle => true | _ => false end.
(* the cancel callback has passed its critical section (the cancel step happened) *)
Definition cancelled (o : op) : bool := match cpc o with CIdle | CLock => false | _ => true end.
Definition early (o : op) : bool := match spc o with SInit | SReg => true | _ => false end.

Record opinv (nw : Z) (qq : list timer) (tp : tpc_t) (j : nat) (o : op) : Prop := {
  oi_hold : (b2n (sholds o) + cnt j qq + b2n (cholds o) + b2n (tholds j tp) + ncomp o = b2n (started o))%nat;
  oi_sreq : cidle o = false -> sreq o = true;
  oi_orig : cidle o = true -> started o = true -> orig o = Some (dueT o);
  oi_orig0 : started o = false -> orig o = None;
  oi_tdue : tholds j tp = true -> dueT o <= nw;
  oi_cdue : cancelled o = true -> dueT o <= nw;
  oi_h1 : early o = true -> cidle o = true /\ cb o = CbNone;
  oi_h2 : kpc o = KRel1 -> cb o = CbRunning /\ cidle o = true /\ sreq o = true;
  oi_h3 : cb o = CbLinked -> cidle o = true;
  oi_h4 : kpc o = KCb \/ kpc o = KCompleted -> cb o = CbRunning
}.

Definition qinv (s : st) : Prop :=
  sorted_due (q s) /\ NoDup (map id (q s)) /\
  forall x, In x (q s) -> exists o, nth_error (ops s) (id x) = Some o /\ dueT o = due x.

Definition Inv (s : st) : Prop :=
  qinv s /\ forall j o, nth_error (ops s) j = Some o -> opinv (now s) (q s) (tpc s) j o.

Lemma tholds_notify : forall j p, tholds j (notify p) = tholds j p.
Proof. intros j [ | | | | | | | | | ]; reflexivity. Qed.

(* ------------------------------------------------------------------------------------------- *)
(* frame lemmas                                                                                 *)

Lemma opinv_frame : forall nw nw' qq qq' tp tp' j o,
  opinv nw qq tp j o -> nw <= nw' -> cnt j qq' = cnt j qq -> tholds j tp' = tholds j tp ->
  opinv nw' qq' tp' j o.
Proof.
  intros nw nw' qq qq' tp tp' j o [h1 h2 h3 h4 h5 h6 h7 h8 h9 h10] Hn Hc Ht.
  constructor; auto; try (rewrite Hc, Ht; exact h1);
    try (rewrite Ht; intros H; specialize (h5 H); lia); intros H; specialize (h6 H); lia.
Qed.

Definition qdue (qq : list timer) (os : list op) : Prop :=
  forall x, In x qq -> exists o, nth_error os (id x) = Some o /\ dueT o = due x.

Lemma qdue_put_same : forall qq os i o o',
  qdue qq os -> nth_error os i = Some o -> dueT o' = dueT o -> qdue qq (set_nth i o' os).
Proof.
  intros qq os i o o' H Hn Hd x Hx. destruct (H x Hx) as [o1 [E1 E2]].
  destruct (Nat.eq_dec i (id x)) as [E|E].
  - subst i. exists o'. rewrite (nth_set_nth_eq _ _ _ _ Hn). split; [reflexivity|]. congruence.
  - exists o1. rewrite nth_set_nth_neq by exact E. tauto.
Qed.

Lemma qdue_put_absent : forall qq os i o',
  qdue qq os -> ~ In i (map id qq) -> qdue qq (set_nth i o' os).
Proof.
  intros qq os i o' H Hn x Hx. destruct (H x Hx) as [o1 [E1 E2]].
  exists o1. rewrite nth_set_nth_neq; [tauto|]. intros E. apply Hn. subst i. apply in_map. exact Hx.
Qed.

Lemma qdue_subset : forall qq qq' os, qdue qq os -> (forall x, In x qq' -> In x qq) -> qdue qq' os.
Proof. intros qq qq' os H Hs x Hx. apply H, Hs, Hx. Qed.

Lemma qdue_insert : forall qq os i o',
  qdue qq os -> nth_error os i = Some o' -> qdue (insert_timed (dueT o', i) qq) os.
Proof.
  intros qq os i o' H Hn x Hx. apply insert_timed_In in Hx. destruct Hx as [-> | Hx].
  - exists o'. cbn. tauto.
  - apply H, Hx.
Qed.

(* the tactic that rebuilds the per-operation invariant of the operation a step modified *)
Ltac opfields :=
  unfold sholds, cholds, started, cidle, cancelled, early, b2n in *; cbn in *.

Ltac op_rebuild Hold :=
  let h1 := fresh "h" in let h2 := fresh "h" in let h3 := fresh "h" in let h4 := fresh "h" in
  let h5 := fresh "h" in let h6 := fresh "h" in let h7 := fresh "h" in let h8 := fresh "h" in
  let h9 := fresh "h" in let h10 := fresh "h" in
  destruct Hold as [h1 h2 h3 h4 h5 h6 h7 h8 h9 h10];
  constructor; opfields;
  repeat match goal with H : ?x = _ |- _ => rewrite H in * end; cbn in *;
  try solve [intuition (try congruence; try lia)].

(* ------------------------------------------------------------------------------------------- *)
(* preservation, thread by thread                                                               *)

Definition tholds_eq (p p' : tpc_t) : Prop := forall j, tholds j p = tholds j p'.
(* generic: a step that rewrites operation i and possibly the queue / the timer thread's pc *)
Lemma inv_step_op : forall s s' i o o',
  Inv s -> nth_error (ops s) i = Some o ->
  now s' = now s -> ops s' = set_nth i o' (ops s) ->
  sorted_due (q s') -> NoDup (map id (q s')) -> qdue (q s') (set_nth i o' (ops s)) ->
  (forall j, j <> i -> cnt j (q s') = cnt j (q s) /\ tholds j (tpc s') = tholds j (tpc s)) ->
  opinv (now s) (q s') (tpc s') i o' ->
  Inv s'.
Proof.
  intros s s' i o o' [[Hs [Hnd Hq]] Ho] Hn En Eo Hs' Hnd' Hq' Hfr Hnew. split.
  - split; [exact Hs'|]. split; [exact Hnd'|]. rewrite Eo. exact Hq'.
  - rewrite Eo, En. intros j o'' Hj. destruct (Nat.eq_dec i j) as [E|E].
    + subst j. rewrite (nth_set_nth_eq _ _ _ _ Hn) in Hj. inversion Hj; subst. exact Hnew.
    + rewrite nth_set_nth_neq in Hj by exact E. destruct (Hfr j (not_eq_sym E)) as [Hc Ht].
      eapply opinv_frame; [apply Ho, Hj | lia | exact Hc | exact Ht].
Qed.

(* operation i rewritten, queue and timer pc untouched *)
Lemma inv_put_only : forall s s' i o o',
  Inv s -> nth_error (ops s) i = Some o ->
  now s' = now s -> ops s' = set_nth i o' (ops s) -> q s' = q s -> tpc s' = tpc s ->
  dueT o' = dueT o \/ ~ In i (map id (q s)) ->
  opinv (now s) (q s) (tpc s) i o' ->
  Inv s'.
Proof.
  intros s s' i o o' HI Hn En Eo Eq Et Hd Hnew. pose proof HI as [[Hs [Hnd Hq]] Ho].
  eapply inv_step_op; eauto; rewrite ?Eq, ?Et; auto.
  destruct Hd as [Hd|Hd]; [eapply qdue_put_same; eauto | eapply qdue_put_absent; eauto].
Qed.

(* operation i rewritten and the timer thread notified *)
Lemma inv_put_notify : forall s s' i o o',
  Inv s -> nth_error (ops s) i = Some o ->
  now s' = now s -> ops s' = set_nth i o' (ops s) -> q s' = q s -> tpc s' = notify (tpc s) ->
  dueT o' = dueT o ->
  opinv (now s) (q s) (tpc s) i o' ->
  Inv s'.
Proof.
  intros s s' i o o' HI Hn En Eo Eq Et Hd Hnew. pose proof HI as [[Hs [Hnd Hq]] Ho].
  eapply inv_step_op; eauto; rewrite ?Eq, ?Et; auto.
  - eapply qdue_put_same; eauto.
  - intros j _. split; [reflexivity | apply tholds_notify].
  - eapply opinv_frame; [exact Hnew | lia | reflexivity | apply tholds_notify].
Qed.

(* operation i inserted into the queue *)
Lemma inv_insert : forall s s' i o o',
  Inv s -> nth_error (ops s) i = Some o ->
  now s' = now s -> ops s' = set_nth i o' (ops s) ->
  q s' = insert_timed (dueT o, i) (q s) -> tpc s' = tpc s ->
  dueT o' = dueT o -> cnt i (q s) = 0%nat ->
  opinv (now s) (insert_timed (dueT o, i) (q s)) (tpc s) i o' ->
  Inv s'.
Proof.
  intros s s' i o o' HI Hn En Eo Eq Et Hd Hc Hnew. pose proof HI as [[Hs [Hnd Hq]] Ho].
  eapply inv_step_op; eauto; rewrite ?Eq, ?Et; auto.
  - apply insert_timed_sorted, Hs.
  - apply insert_timed_NoDup_ids; [exact Hnd|]. cbn. apply cnt_zero_notin, Hc.
  - rewrite <- Hd. apply qdue_insert.
    + eapply qdue_put_same; eauto.
    + eapply nth_set_nth_eq; eauto.
  - intros j Hj. split; [|reflexivity]. rewrite cnt_insert. cbn.
    assert (Nat.eqb i j = false) as -> by (apply Nat.eqb_neq; congruence). reflexivity.
Qed.

(* operation i unlinked from the queue *)
Lemma inv_remove : forall s s' i o o',
  Inv s -> nth_error (ops s) i = Some o ->
  now s' = now s -> ops s' = set_nth i o' (ops s) ->
  q s' = heap_remove i (q s) -> tpc s' = tpc s ->
  opinv (now s) (heap_remove i (q s)) (tpc s) i o' ->
  Inv s'.
Proof.
  intros s s' i o o' HI Hn En Eo Eq Et Hnew. pose proof HI as [[Hs [Hnd Hq]] Ho].
  eapply inv_step_op; eauto; rewrite ?Eq, ?Et; auto.
  - apply heap_remove_sorted, Hs.
  - apply heap_remove_NoDup_ids, Hnd.
  - apply qdue_put_absent.
    + eapply qdue_subset; [exact Hq|]. apply In_heap_remove.
    + apply heap_remove_gone, Hnd.
  - intros j Hj. split; [|reflexivity]. apply cnt_remove_other. congruence.
Qed.

(* nothing the invariant looks at changes *)
Lemma inv_same : forall s s',
  Inv s -> now s' = now s -> ops s' = ops s -> q s' = q s -> tholds_eq (tpc s') (tpc s) -> Inv s'.
Proof.
  intros s s' [[Hs [Hnd Hq]] Ho] En Eo Eq Et. split.
  - unfold qinv. rewrite Eq, Eo. auto.
  - rewrite Eo, En, Eq. intros j o Hj. eapply opinv_frame; [apply Ho, Hj | lia | reflexivity | apply Et].
Qed.

Ltac op_case o :=
  try solve [
    try (destruct (cpc o) eqn:?); cbn in *;
    try match goal with |- context [tholds ?i ?p] => destruct (tholds i p) eqn:? end;
    try match goal with H : context [tholds ?i ?p] |- _ => destruct (tholds i p) eqn:? end;
    cbn in *; intuition (try congruence; try lia) ].

Ltac use_put HI Hn := eapply inv_put_only with (1 := HI) (2 := Hn); [reflexivity | reflexivity | reflexivity | reflexivity | | ].
Ltac use_notify HI Hn := eapply inv_put_notify with (1 := HI) (2 := Hn); [reflexivity | reflexivity | reflexivity | reflexivity | reflexivity | ].
Ltac use_insert HI Hn := eapply inv_insert with (1 := HI) (2 := Hn); [reflexivity | reflexivity | reflexivity | reflexivity | reflexivity | | ].
Ltac use_remove HI Hn := eapply inv_remove with (1 := HI) (2 := Hn); [reflexivity | reflexivity | reflexivity | reflexivity | ].

Lemma cb_inv : forall fin i o s s' evs, Inv s -> nth_error (ops s) i = Some o ->
  (fin = (fun o' => set_spc o' SEnqLock) /\ spc o = SCb) \/ (fin = (fun o' => set_kpc o' KCompleted) /\ kpc o = KCb) ->
  step_cb fin i o s = Some (s', evs) -> Inv s'.
Proof.
  intros fin i o s s' evs HI Hn Hfin H. unfold step_cb in H.
  pose proof (proj2 HI i o Hn) as Hold.
  destruct (cpc o) eqn:Hc; try discriminate.
  - (* CLock *)
    destruct (mlocked s); [discriminate|].
    destruct (now s <? dueT o) eqn:El.
    + apply Z.ltb_lt in El. destruct (linkedb i (q s)) eqn:Ek.
      * inversion H; subst; clear H. apply linkedb_cnt in Ek. pose proof (cnt_remove_same i (q s) Ek) as Hr.
        use_remove HI Hn. destruct Hfin as [[-> Hp]|[-> Hp]]; op_rebuild Hold; op_case o.
      * inversion H; subst; clear H. apply linkedb_false_cnt in Ek.
        use_put HI Hn; [right; apply cnt_zero_notin, Ek|].
        destruct Hfin as [[-> Hp]|[-> Hp]]; op_rebuild Hold; op_case o.
    + apply Z.ltb_ge in El. inversion H; subst; clear H. use_put HI Hn; [left; reflexivity|].
      destruct Hfin as [[-> Hp]|[-> Hp]]; op_rebuild Hold; op_case o.
  - (* CUnlockRequeue *) inversion H; subst; clear H. use_put HI Hn; [left; reflexivity|].
    destruct Hfin as [[-> Hp]|[-> Hp]]; op_rebuild Hold; op_case o.
  - (* CEnqLock *)
    destruct (mlocked s); [discriminate|]. inversion H; subst; clear H.
    assert (Hz : cnt i (q s) = 0%nat).
    { destruct Hold. opfields. rewrite Hc in *. cbn in *. destruct (spc o); cbn in *; lia. }
    use_insert HI Hn; [exact Hz|].
    destruct (at_head (dueT o, i) (q s)); destruct Hfin as [[-> Hp]|[-> Hp]];
      op_rebuild Hold; rewrite ?cnt_insert in *; cbn in *; rewrite ?Nat.eqb_refl in *; op_case o.
  - (* CEnqNotify *) inversion H; subst; clear H. use_notify HI Hn.
    destruct Hfin as [[-> Hp]|[-> Hp]]; op_rebuild Hold; op_case o.
  - (* CEnqUnlock *) inversion H; subst; clear H. use_put HI Hn; [destruct Hfin as [[-> Hp]|[-> Hp]]; left; reflexivity|].
    destruct Hfin as [[-> Hp]|[-> Hp]]; op_rebuild Hold; op_case o.
  - (* CUnlockDone *) inversion H; subst; clear H. use_put HI Hn; [destruct Hfin as [[-> Hp]|[-> Hp]]; left; reflexivity|].
    destruct Hfin as [[-> Hp]|[-> Hp]]; op_rebuild Hold; op_case o.
Qed.

Lemma starter_inv : forall i s s' evs, Inv s -> step_starter i s = Some (s', evs) -> Inv s'.
Proof.
  intros i s s' evs HI H. unfold step_starter in H.
  destruct (nth_error (ops s) i) as [o|] eqn:Hn; [|discriminate].
  pose proof (proj2 HI i o Hn) as Hold.
  destruct (spc o) eqn:Hs.
  - (* SInit *) inversion H; subst; clear H. use_put HI Hn.
    + right. apply cnt_zero_notin. destruct Hold. opfields. rewrite Hs in *. cbn in *. lia.
    + op_rebuild Hold; op_case o.
  - (* SReg *)
    destruct (sreq o) eqn:Hq.
    + inversion H; subst; clear H. use_put HI Hn; [left; reflexivity|]. op_rebuild Hold; op_case o.
    + destruct (slock o) eqn:Hl; [discriminate|]. inversion H; subst; clear H.
      use_put HI Hn; [left; reflexivity|]. op_rebuild Hold; op_case o.
  - (* SRegRel *) inversion H; subst; clear H. use_put HI Hn; [left; reflexivity|]. op_rebuild Hold; op_case o.
  - (* SCb *) eapply (cb_inv _ i o s s' evs HI Hn); [left; split; [reflexivity | exact Hs] | exact H].
  - (* SEnqLock *)
    destruct (mlocked s); [discriminate|]. inversion H; subst; clear H.
    assert (Hc : cnt i (q s) = 0%nat).
    { destruct Hold. opfields. rewrite Hs in *. cbn in *. lia. }
    use_insert HI Hn; [exact Hc|].
    destruct (at_head (dueT o, i) (q s)); op_rebuild Hold; rewrite ?cnt_insert in *; cbn in *; rewrite ?Nat.eqb_refl in *; op_case o.
  - (* SEnqNotify *) inversion H; subst; clear H. use_notify HI Hn. op_rebuild Hold; op_case o.
  - (* SEnqUnlock *) inversion H; subst; clear H. use_put HI Hn; [left; reflexivity|]. op_rebuild Hold; op_case o.
  - discriminate.
Qed.
Lemma stopper_inv : forall i s s' evs, Inv s -> step_stopper i s = Some (s', evs) -> Inv s'.
Proof.
  intros i s s' evs HI H. unfold step_stopper in H.
  destruct (nth_error (ops s) i) as [o|] eqn:Hn; [|discriminate].
  pose proof (proj2 HI i o Hn) as Hold.
  destruct (kpc o) eqn:Hk.
  - (* KInit *)
    destruct (sreq o) eqn:Hq.
    + inversion H; subst; clear H. use_put HI Hn; [left; reflexivity|]. op_rebuild Hold; op_case o.
    + destruct (slock o) eqn:Hl; [discriminate|].
      destruct (cb o) eqn:Hb; inversion H; subst; clear H; (use_put HI Hn; [left; reflexivity|]); op_rebuild Hold; op_case o.
  - (* KRel1 *) inversion H; subst; clear H. use_put HI Hn; [left; reflexivity|]. op_rebuild Hold; op_case o.
  - (* KCb *) eapply (cb_inv _ i o s s' evs HI Hn); [right; split; [reflexivity | exact Hk] | exact H].
  - (* KCompleted *) inversion H; subst; clear H. use_put HI Hn; [left; reflexivity|]. op_rebuild Hold; op_case o.
  - (* KRelock *) destruct (slock o); [discriminate|]. inversion H; subst; clear H. use_put HI Hn; [left; reflexivity|]. op_rebuild Hold; op_case o.
  - (* KRelFinal *) inversion H; subst; clear H. use_put HI Hn; [left; reflexivity|]. op_rebuild Hold; op_case o.
  - discriminate.
Qed.

(* operation i rewritten, timer pc changes within the set that holds the same operation *)
Lemma inv_put_tp : forall s s' i o o',
  Inv s -> nth_error (ops s) i = Some o ->
  now s' = now s -> ops s' = set_nth i o' (ops s) -> q s' = q s -> tholds_eq (tpc s') (tpc s) ->
  dueT o' = dueT o ->
  opinv (now s) (q s) (tpc s) i o' ->
  Inv s'.
Proof.
  intros s s' i o o' HI Hn En Eo Eq Et Hd Hnew. pose proof HI as [[Hs [Hnd Hq]] Ho].
  eapply inv_step_op with (1 := HI) (2 := Hn); [exact En | exact Eo | rewrite Eq; exact Hs | rewrite Eq; exact Hnd | rewrite Eq | rewrite Eq | rewrite Eq ].
  - eapply qdue_put_same; eauto.
  - intros j _. split; [reflexivity | apply Et].
  - eapply opinv_frame; [exact Hnew | lia | reflexivity | apply Et].
Qed.
Ltac use_put_tp HI Hn := eapply inv_put_tp with (1 := HI) (2 := Hn); [reflexivity | reflexivity | reflexivity | intros ?; reflexivity | reflexivity | ].

Lemma decide_inv : forall s, Inv s -> (forall j, tholds j (tpc s) = false) -> Inv (decide (set_m s true)).
Proof.
  intros s HI Hno. unfold decide. cbn.
  destruct (stopflag s).
  { eapply inv_same; [exact HI | reflexivity | reflexivity | reflexivity | intros j; cbn; symmetry; apply Hno]. }
  destruct (q s) as [|x tl] eqn:Eq.
  { eapply inv_same; [exact HI | reflexivity | reflexivity | reflexivity | intros j; cbn; symmetry; apply Hno]. }
  destruct (due x <=? now s) eqn:El.
  2:{ eapply inv_same; [exact HI | reflexivity | reflexivity | reflexivity | intros j; cbn; symmetry; apply Hno]. }
  apply Z.leb_le in El.
  destruct HI as [[Hs [Hnd Hq]] Ho]. rewrite Eq in *. split.
  - split; [eapply sorted_due_tail; exact Hs|]. split; [cbn in Hnd; inversion Hnd; assumption|].
    cbn. intros y Hy. apply Hq. right. exact Hy.
  - cbn. intros j o Hj. specialize (Ho j o Hj). specialize (Hno j).
    destruct (Nat.eq_dec (id x) j) as [E|E].
    + subst j. destruct (Hq x (or_introl eq_refl)) as [o1 [E1 E2]]. rewrite Hj in E1. inversion E1; subst o1.
      destruct Ho as [h1 h2 h3 h4 h5 h6 h7 h8 h9 h10]. rewrite cnt_cons, Nat.eqb_refl in h1. rewrite Hno in *.
      constructor; auto; cbn; rewrite ?Nat.eqb_refl; cbn in *; try lia.
    + eapply opinv_frame; [exact Ho | lia | | ].
      * rewrite cnt_cons. apply Nat.eqb_neq in E. rewrite E. reflexivity.
      * cbn. rewrite Hno. apply Nat.eqb_neq. exact E.
Qed.

Lemma timer_inv : forall s s' evs, Inv s -> step_timer s = Some (s', evs) -> Inv s'.
Proof.
  intros s s' evs HI H. unfold step_timer, with_op in H.
  destruct (tpc s) as [ |dl|dl ntf|i|i|i w|i|i| | ] eqn:Et.
  - (* TAcq *) destruct (mlocked s); [discriminate|]. inversion H; subst; clear H.
    apply decide_inv; [exact HI|]. intros j. rewrite Et. reflexivity.
  - (* TWaitGo *) inversion H; subst; clear H.
    eapply inv_same; [exact HI | reflexivity | reflexivity | reflexivity | intros j; rewrite Et; reflexivity].
  - (* TWaiting *) destruct (mlocked s); [discriminate|].
    destruct (ntf || match dl with Some d => d <=? now s | None => false end); [|discriminate].
    inversion H; subst; clear H. apply decide_inv; [exact HI|]. intros j. rewrite Et. reflexivity.
  - (* TUnlockExec *) destruct (nth_error (ops s) i) as [o|] eqn:Hn; [|discriminate]. inversion H; subst; clear H.
    eapply inv_same; [exact HI | reflexivity | reflexivity | reflexivity | intros j; rewrite Et; cbn; destruct (cb o); reflexivity].
  - (* TDeregLock *) destruct (nth_error (ops s) i) as [o|] eqn:Hn; [|discriminate].
    pose proof (proj2 HI i o Hn) as Hold. rewrite Et in Hold.
    destruct (slock o) eqn:Hl; [discriminate|].
    destruct (cb o) eqn:Hb; inversion H; subst; clear H;
      (eapply inv_put_tp with (1 := HI) (2 := Hn); [reflexivity | reflexivity | reflexivity | intros ?; rewrite Et; reflexivity | reflexivity | rewrite Et ]);
      op_rebuild Hold; op_case o.
  - (* TDeregRel *) destruct (nth_error (ops s) i) as [o|] eqn:Hn; [|discriminate].
    pose proof (proj2 HI i o Hn) as Hold. rewrite Et in Hold. inversion H; subst; clear H.
    eapply inv_put_tp with (1 := HI) (2 := Hn); [reflexivity | reflexivity | reflexivity | intros ?; rewrite Et; destruct w; reflexivity | reflexivity | rewrite Et ].
    op_rebuild Hold; op_case o.
  - (* TWaitCompleted *) destruct (nth_error (ops s) i) as [o|] eqn:Hn; [|discriminate].
    pose proof (proj2 HI i o Hn) as Hold. rewrite Et in Hold.
    destruct (cb o) eqn:Hb; try discriminate. inversion H; subst; clear H.
    eapply inv_put_tp with (1 := HI) (2 := Hn); [reflexivity | reflexivity | reflexivity | intros ?; rewrite Et; reflexivity | reflexivity | rewrite Et ].
    op_rebuild Hold; op_case o.
  - (* TObsStop *) destruct (nth_error (ops s) i) as [o|] eqn:Hn; [|discriminate].
    pose proof (proj2 HI i o Hn) as Hold. rewrite Et in Hold. inversion H; subst; clear H.
    pose proof HI as [[Hs [Hnd Hq]] Ho].
    eapply inv_step_op with (1 := HI) (2 := Hn); [reflexivity | reflexivity | exact Hs | exact Hnd | | | ].
    + cbn. eapply qdue_put_same; eauto.
    + intros j Hj. split; [reflexivity|]. cbn. rewrite Et. cbn. symmetry. apply Nat.eqb_neq. congruence.
    + cbn. op_rebuild Hold; rewrite ?Nat.eqb_refl in *; cbn in *; op_case o.
  - (* TExitUnlock *) inversion H; subst; clear H.
    eapply inv_same; [exact HI | reflexivity | reflexivity | reflexivity | intros j; rewrite Et; reflexivity].
  - discriminate.
Qed.

Lemma destroyer_inv : forall s s' evs, Inv s -> step_destroyer s = Some (s', evs) -> Inv s'.
Proof.
  intros s s' evs HI H. unfold step_destroyer in H.
  destruct (dpc s).
  - destruct (mlocked s); [discriminate|]. destruct (all_completed s); [|discriminate].
    inversion H; subst; clear H.
    eapply inv_same; [exact HI | reflexivity | reflexivity | reflexivity | intros j; reflexivity].
  - inversion H; subst; clear H.
    eapply inv_same; [exact HI | reflexivity | reflexivity | reflexivity | intros j; apply tholds_notify].
  - inversion H; subst; clear H.
    eapply inv_same; [exact HI | reflexivity | reflexivity | reflexivity | intros j; reflexivity].
  - destruct (tpc s); try discriminate. inversion H; subst; clear H.
    eapply inv_same; [exact HI | reflexivity | reflexivity | reflexivity | intros j; reflexivity].
  - discriminate.
Qed.

Lemma poke_inv : forall s s' evs, Inv s -> step_poke s = Some (s', evs) -> Inv s'.
Proof.
  intros s s' evs HI H. unfold step_poke in H. inversion H; subst; clear H.
  eapply inv_same; [exact HI | reflexivity | reflexivity | reflexivity | intros j; apply tholds_notify].
Qed.

Lemma clock_inv : forall k s s' evs, Inv s -> step_clock k s = Some (s', evs) -> Inv s'.
Proof.
  intros k s s' evs [[Hs [Hnd Hq]] Ho] H. unfold step_clock in H. inversion H; subst; clear H. split.
  - split; [exact Hs|]. split; [exact Hnd | exact Hq].
  - cbn. intros j o Hj. eapply opinv_frame; [apply Ho, Hj | lia | reflexivity | reflexivity].
Qed.

Lemma step_inv : forall s t s' evs, Inv s -> step t s = Some (s', evs) -> Inv s'.
Proof.
  intros s t s' evs HI H. unfold step in H.
  destruct (Nat.eqb t 0); [eapply timer_inv; eauto|].
  destruct (Nat.leb t (nops s)); [eapply starter_inv; eauto|].
  destruct (Nat.leb t (2 * nops s)); [eapply stopper_inv; eauto|].
  destruct (Nat.eqb t (2 * nops s + 1)); [eapply destroyer_inv; eauto|].
  destruct (Nat.eqb t (2 * nops s + 2)); [eapply poke_inv; eauto|].
  eapply clock_inv; eauto.
Qed.

Lemma init_inv : forall now0 specs, Inv (init now0 specs).
Proof.
  intros now0 specs. split.
  - split; [reflexivity|]. split; [constructor|]. intros x [].
  - cbn. intros j o Hj. apply nth_error_In in Hj. apply in_map_iff in Hj.
    destruct Hj as [sp [<- _]]. constructor; cbn; try reflexivity; try discriminate; auto;
      try (intros [H|H]; discriminate).
Qed.

Theorem inv_run : forall now0 specs sched,
  Inv (fst (run step sched (init now0 specs, []))).
Proof.
  intros. apply (run_invariant_state _ _ _ step Inv); [|apply init_inv].
  intros s t s' ev HI H. eapply step_inv; eauto.
Qed.
(* ------------------------------------------------------------------------------------------- *)
(* what one step does to the ghosts and which completion events it emits                        *)

Definition is_comp (j : nat) (e : ev) : bool :=
  match e with EFire i _ | EDone i _ => Nat.eqb i j | _ => false end.
Definition ccount (j : nat) (tr : list ev) : nat := length (filter (is_comp j) tr).

Lemma ccount_app : forall j a b, ccount j (a ++ b) = (ccount j a + ccount j b)%nat.
Proof. intros. unfold ccount. rewrite filter_app, app_length. reflexivity. Qed.

Definition start_due (s : st) (o : op) : Z := if o_after o then now s + o_t o else o_t o.

Definition effect (s s' : st) (evs : list ev) : Prop :=
  length (ops s') = length (ops s) /\ now s <= now s' /\
  (forall j t, In (EFire j t) evs -> exists o, nth_error (ops s) j = Some o) /\
  forall j o, nth_error (ops s) j = Some o ->
    exists o', nth_error (ops s') j = Some o' /\
      (started o = true -> started o' = true /\ orig o' = orig o) /\
      (o_after o' = o_after o /\ o_t o' = o_t o) /\
      ncomp o' = (ncomp o + ccount j evs)%nat /\
      (forall t, In (EFire j t) evs -> tholds j (tpc s) = true /\ sreq o = false /\ t = now s) /\
      (In (EStart j) evs -> started o' = true /\ orig o' = Some (start_due s o)).

Lemma eff_put : forall s s' i o o' evs,
  nth_error (ops s) i = Some o -> ops s' = set_nth i o' (ops s) -> now s' = now s ->
  (started o = true -> started o' = true /\ orig o' = orig o) ->
  (o_after o' = o_after o /\ o_t o' = o_t o) ->
  ncomp o' = (ncomp o + ccount i evs)%nat ->
  (forall j, j <> i -> ccount j evs = 0%nat) ->
  (forall j t, In (EFire j t) evs -> j = i /\ tholds j (tpc s) = true /\ sreq o = false /\ t = now s) ->
  (forall j, In (EStart j) evs -> j = i /\ started o' = true /\ orig o' = Some (start_due s o)) ->
  effect s s' evs.
Proof.
  intros s s' i o o' evs Hn Eo En Ho Hp Hc Hz Hf Hst. split; [|split; [|split]].
  - rewrite Eo. apply length_set_nth.
  - lia.
  - intros j t Hin. destruct (Hf j t Hin) as [-> _]. eauto.
  - intros j o1 Hj. rewrite Eo. destruct (Nat.eq_dec i j) as [E|E].
    + subst j. rewrite Hn in Hj. inversion Hj; subst o1. exists o'.
      rewrite (nth_set_nth_eq _ _ _ _ Hn). repeat split; auto; try apply (Hf i t H); try apply (Hst i H); try apply Ho; auto; apply Hp.
    + exists o1. rewrite nth_set_nth_neq by exact E. repeat split; auto;
        try (exfalso; apply E; symmetry; apply (Hf j t H));
        try (exfalso; apply E; symmetry; apply (Hst j H)).
      rewrite Hz by congruence. lia.
Qed.

Lemma eff_same : forall s s' evs,
  ops s' = ops s -> now s <= now s' -> (forall j, ccount j evs = 0%nat) -> (forall j t, ~ In (EFire j t) evs) ->
  (forall j, ~ In (EStart j) evs) -> effect s s' evs.
Proof.
  intros s s' evs Eo En Hz Hf Hst. split; [rewrite Eo; reflexivity|]. split; [exact En|].
  split; [intros j t Hin; exfalso; eapply Hf; eauto|].
  intros j o Hj. exists o. rewrite Eo. repeat split; auto;
    try (exfalso; eapply Hf; eauto; fail); try (exfalso; eapply Hst; eauto; fail).
  rewrite Hz. lia.
Qed.

Ltac no_fire := cbn; intros; intuition discriminate.
(* a step that rewrites operation i and emits no completion event *)
Ltac eff_plain Hn :=
  eapply eff_put with (1 := Hn);
    [reflexivity | reflexivity | unfold started; cbn; auto | cbn; auto | cbn; lia | intros; reflexivity | no_fire | no_fire].
Ltac eff_none := eapply eff_same; [reflexivity | cbn; lia | intros; reflexivity | no_fire | no_fire].

Lemma cb_effect : forall fin i o s s' evs, nth_error (ops s) i = Some o ->
  (forall o', orig (fin o') = orig o' /\ ncomp (fin o') = ncomp o' /\ o_after (fin o') = o_after o' /\
              o_t (fin o') = o_t o' /\ (started o' = true -> started (fin o') = true)) ->
  step_cb fin i o s = Some (s', evs) -> effect s s' evs.
Proof.
  intros fin i o s s' evs Hn Hfin H. unfold step_cb in H.
  destruct (cpc o); try discriminate.
  - destruct (mlocked s); [discriminate|]. destruct (now s <? dueT o); [destruct (linkedb i (q s))|];
      inversion H; subst; clear H; eff_plain Hn.
  - inversion H; subst; clear H; eff_plain Hn.
  - destruct (mlocked s); [discriminate|]. inversion H; subst; clear H; eff_plain Hn.
  - inversion H; subst; clear H; eff_plain Hn.
  - inversion H; subst; clear H. eapply eff_put with (1 := Hn);
      [reflexivity | reflexivity
     | intros Hst; destruct (Hfin (set_cpc o CFin)) as [F1 [F2 [F3 [F4 F5]]]]; split; [apply F5; exact Hst | rewrite F1; reflexivity]
     | destruct (Hfin (set_cpc o CFin)) as [F1 [F2 [F3 [F4 F5]]]]; rewrite F3, F4; split; reflexivity
     | destruct (Hfin (set_cpc o CFin)) as [F1 [F2 [F3 [F4 F5]]]]; rewrite F2; cbn; lia
     | intros; reflexivity | no_fire | no_fire].
  - inversion H; subst; clear H. eapply eff_put with (1 := Hn);
      [reflexivity | reflexivity
     | intros Hst; destruct (Hfin (set_cpc o CFin)) as [F1 [F2 [F3 [F4 F5]]]]; split; [apply F5; exact Hst | rewrite F1; reflexivity]
     | destruct (Hfin (set_cpc o CFin)) as [F1 [F2 [F3 [F4 F5]]]]; rewrite F3, F4; split; reflexivity
     | destruct (Hfin (set_cpc o CFin)) as [F1 [F2 [F3 [F4 F5]]]]; rewrite F2; cbn; lia
     | intros; reflexivity | no_fire | no_fire].
Qed.

Lemma decide_ops : forall s, ops (decide s) = ops s.
Proof. intros s. unfold decide. destruct (stopflag s); [reflexivity|]. destruct (q s); [reflexivity|]. destruct (_ <=? _); reflexivity. Qed.

Lemma decide_now : forall s, now (decide s) = now s.
Proof. intros s. unfold decide. destruct (stopflag s); [reflexivity|]. destruct (q s); [reflexivity|]. destruct (_ <=? _); reflexivity. Qed.

Lemma step_effect : forall s t s' evs, step t s = Some (s', evs) -> effect s s' evs.
Proof.
  intros s t s' evs H. unfold step in H.
  destruct (Nat.eqb t 0).
  { unfold step_timer, with_op in H. destruct (tpc s) as [ |dl|dl ntf|i|i|i w|i|i| | ] eqn:Et.
    - destruct (mlocked s); [discriminate|]. inversion H; subst; clear H.
      eapply eff_same; [rewrite decide_ops; reflexivity | rewrite decide_now; cbn; lia | intros; reflexivity | no_fire | no_fire].
    - inversion H; subst; clear H. eff_none.
    - destruct (mlocked s); [discriminate|]. destruct (_ || _); [|discriminate]. inversion H; subst; clear H.
      eapply eff_same; [rewrite decide_ops; reflexivity | rewrite decide_now; cbn; lia | intros; reflexivity | no_fire | no_fire].
    - destruct (nth_error (ops s) i) as [o|] eqn:Hn; [|discriminate]. inversion H; subst; clear H. eff_none.
    - destruct (nth_error (ops s) i) as [o|] eqn:Hn; [|discriminate]. destruct (slock o); [discriminate|].
      destruct (cb o); inversion H; subst; clear H; eff_plain Hn.
    - destruct (nth_error (ops s) i) as [o|] eqn:Hn; [|discriminate]. inversion H; subst; clear H; eff_plain Hn.
    - destruct (nth_error (ops s) i) as [o|] eqn:Hn; [|discriminate]. destruct (cb o); try discriminate.
      inversion H; subst; clear H; eff_plain Hn.
    - destruct (nth_error (ops s) i) as [o|] eqn:Hn; [|discriminate]. inversion H; subst; clear H.
      eapply eff_put with (1 := Hn); [reflexivity | reflexivity | unfold started; cbn; auto | cbn; auto | | | | destruct (sreq o); no_fire ].
      + cbn. unfold ccount. cbn. destruct (sreq o); cbn; rewrite Nat.eqb_refl; cbn; lia.
      + intros j Hj. unfold ccount. cbn. destruct (sreq o); cbn;
          (assert (Nat.eqb i j = false) as -> by (apply Nat.eqb_neq; congruence)); reflexivity.
      + intros j t0 Hin. cbn in Hin. destruct Hin as [Hin|[Hin|[]]]; [discriminate|].
        destruct (sreq o) eqn:Eq; [discriminate|]. inversion Hin; subst. rewrite Et. cbn. rewrite Nat.eqb_refl. auto.
    - inversion H; subst; clear H. eff_none.
    - discriminate. }
  destruct (Nat.leb t (nops s)).
  { unfold step_starter in H. remember (t - 1)%nat as i. clear Heqi.
    destruct (nth_error (ops s) i) as [o|] eqn:Hn; [|discriminate].
    destruct (spc o) eqn:Hs.
    - inversion H; subst; clear H. eapply eff_put with (1 := Hn);
        [reflexivity | reflexivity | unfold started; rewrite Hs; discriminate | cbn; auto | cbn; lia | intros; reflexivity | no_fire | ].
      intros j [Hj|[]]. inversion Hj; subst. repeat split; reflexivity.
    - destruct (sreq o); [|destruct (slock o); [discriminate|]]; inversion H; subst; clear H; eff_plain Hn.
    - inversion H; subst; clear H; eff_plain Hn.
    - eapply (cb_effect _ i o s s' evs Hn); [|exact H]. intros o'; repeat split; reflexivity.
    - destruct (mlocked s); [discriminate|]. inversion H; subst; clear H; destruct (at_head (dueT o, i) (q s)); eff_plain Hn.
    - inversion H; subst; clear H; eff_plain Hn.
    - inversion H; subst; clear H; eff_plain Hn.
    - discriminate. }
  destruct (Nat.leb t (2 * nops s)).
  { unfold step_stopper in H. remember (t - 1 - nops s)%nat as i. clear Heqi.
    destruct (nth_error (ops s) i) as [o|] eqn:Hn; [|discriminate].
    destruct (kpc o) eqn:Hk.
    - destruct (sreq o); [|destruct (slock o); [discriminate|]; destruct (cb o)]; inversion H; subst; clear H; eff_plain Hn.
    - inversion H; subst; clear H; eff_plain Hn.
    - eapply (cb_effect _ i o s s' evs Hn); [|exact H]. intros o'; repeat split; try reflexivity. intros Hx; exact Hx.
    - inversion H; subst; clear H; eff_plain Hn.
    - destruct (slock o); [discriminate|]. inversion H; subst; clear H; eff_plain Hn.
    - inversion H; subst; clear H; eff_plain Hn.
    - discriminate. }
  destruct (Nat.eqb t (2 * nops s + 1)).
  { unfold step_destroyer in H. destruct (dpc s).
    - destruct (mlocked s); [discriminate|]. destruct (all_completed s); [|discriminate]. inversion H; subst; clear H. eff_none.
    - inversion H; subst; clear H. eff_none.
    - inversion H; subst; clear H. eff_none.
    - destruct (tpc s); try discriminate. inversion H; subst; clear H. eff_none.
    - discriminate. }
  destruct (Nat.eqb t (2 * nops s + 2)).
  { unfold step_poke in H. inversion H; subst; clear H. eff_none. }
  unfold step_clock in H. inversion H; subst; clear H. eff_none.
Qed.
(* ------------------------------------------------------------------------------------------- *)
(* invariant over configurations (state + trace)                                                *)

Definition fire_ok (s : st) (e : ev) : Prop :=
  match e with
  | EFire i t => exists o d, nth_error (ops s) i = Some o /\ orig o = Some d /\ d <= t
  | _ => True
  end.

Definition TInv (c : st * list ev) : Prop :=
  Inv (fst c) /\
  (forall j o, nth_error (ops (fst c)) j = Some o -> ccount j (snd c) = ncomp o) /\
  Forall (fire_ok (fst c)) (snd c).

Lemma started_of_orig : forall nw qq tp j o d, opinv nw qq tp j o -> orig o = Some d -> started o = true.
Proof.
  intros nw qq tp j o d H Ho. destruct (started o) eqn:E; [reflexivity|].
  rewrite (oi_orig0 _ _ _ _ _ H E) in Ho. discriminate.
Qed.

Lemma tinv_step : forall c t s' evs,
  TInv c -> step t (fst c) = Some (s', evs) -> TInv (s', snd c ++ evs).
Proof.
  intros [s tr] t s' evs [HI [Hc Hf]] H. cbn [fst snd] in *.
  pose proof (step_effect _ _ _ _ H) as [Hlen [Hnow [Hex Heff]]].
  split; [eapply step_inv; eauto|]. split.
  - cbn [fst snd]. intros j o' Hj.
    assert (exists o, nth_error (ops s) j = Some o) as [o Ho].
    { destruct (nth_error (ops s) j) eqn:E; [eauto|]. apply nth_error_None in E.
      assert (nth_error (ops s') j <> None) as Hx by congruence. apply nth_error_Some in Hx. lia. }
    destruct (Heff j o Ho) as [o'' [E1 [_ [_ [E3 _]]]]]. rewrite Hj in E1. inversion E1; subst o''.
    rewrite ccount_app, (Hc j o Ho). lia.
  - cbn [fst snd]. apply Forall_app. split.
    + eapply Forall_impl; [|exact Hf]. intros e He. destruct e; cbn in *; auto.
      destruct He as [o [d [E1 [E2 E3]]]].
      destruct (Heff i o E1) as [o' [F1 [F2 _]]].
      pose proof (started_of_orig _ _ _ _ _ _ (proj2 HI i o E1) E2) as Hst.
      exists o', d. split; [exact F1|]. split; [|exact E3]. rewrite (proj2 (F2 Hst)). exact E2.
    + apply Forall_forall. intros e He. destruct e; cbn; auto.
      (* a new set_value *)
      destruct (Hex i t0 He) as [o Ho].
      destruct (Heff i o Ho) as [o' [F1 [F2 [_ [_ [F5 _]]]]]].
      destruct (F5 t0 He) as [G1 [G2 G3]]. subst t0.
      pose proof (proj2 HI i o Ho) as Hop.
      assert (Hci : cidle o = true).
      { destruct (cidle o) eqn:E; [reflexivity|]. rewrite (oi_sreq _ _ _ _ _ Hop E) in G2. discriminate. }
      assert (Hst : started o = true).
      { pose proof (oi_hold _ _ _ _ _ Hop) as Hh. rewrite G1 in Hh. destruct (started o); [reflexivity|]. cbn in Hh. lia. }
      exists o', (dueT o). split; [exact F1|]. split.
      * rewrite (proj2 (F2 Hst)). apply (oi_orig _ _ _ _ _ Hop Hci Hst).
      * apply (oi_tdue _ _ _ _ _ Hop G1).
Qed.

Lemma tinv_run : forall now0 specs sched, TInv (run step sched (init now0 specs, [])).
Proof.
  intros. apply (run_invariant _ _ _ step TInv).
  - intros c t s' ev Hc H. eapply tinv_step; eauto.
  - split; [apply init_inv|]. split; [|constructor].
    cbn. intros j o Hj. apply nth_error_In in Hj. apply in_map_iff in Hj. destruct Hj as [sp [<- _]]. reflexivity.
Qed.

(* ------------------------------------------------------------------------------------------- *)
(* never early                                                                                  *)

Theorem never_early : forall now0 specs sched i t,
  let c := run step sched (init now0 specs, []) in
  In (EFire i t) (snd c) ->
  exists o d, nth_error (ops (fst c)) i = Some o /\ orig o = Some d /\ d <= t.
Proof.
  intros now0 specs sched i t c Hin. destruct (tinv_run now0 specs sched) as [_ [_ Hf]].
  fold c in Hf. rewrite Forall_forall in Hf. apply (Hf _ Hin).
Qed.

(* once started, the due time computed by start never changes *)
Lemma orig_persist : forall sched s tr i o d,
  nth_error (ops s) i = Some o -> started o = true -> orig o = Some d ->
  exists o', nth_error (ops (fst (run step sched (s, tr)))) i = Some o' /\ started o' = true /\ orig o' = Some d.
Proof.
  induction sched as [|t sched IH]; intros s tr i o d Hn Hs Ho.
  - exists o. cbn. auto.
  - rewrite run_cons. unfold step_conf. cbn [fst snd].
    destruct (step t s) as [[s' evs]|] eqn:E; [|eapply IH; eauto].
    destruct (step_effect _ _ _ _ E) as [_ [_ [_ Heff]]].
    destruct (Heff i o Hn) as [o' [F1 [F2 _]]]. destruct (F2 Hs) as [G1 G2].
    eapply IH; eauto. congruence.
Qed.

(* grounded statement: the step that starts operation i at clock value n fixes the due time
   (n + delay for schedule_after, the given time point for schedule_at); whatever happens
   afterwards, set_value is delivered only at a clock value >= that due time *)
Theorem never_early_grounded : forall now0 specs sched1 t1 s1 evs1 sched2 i t,
  let c1 := run step sched1 (init now0 specs, []) in
  step t1 (fst c1) = Some (s1, evs1) -> In (EStart i) evs1 ->
  let c2 := run step sched2 (s1, snd c1 ++ evs1) in
  In (EFire i t) (snd c2) ->
  exists o, nth_error (ops (fst c1)) i = Some o /\ start_due (fst c1) o <= t.
Proof.
  intros now0 specs sched1 t1 s1 evs1 sched2 i t c1 Hstep Hst c2 Hin.
  assert (Ec : c2 = run step (sched1 ++ t1 :: sched2) (init now0 specs, [])).
  { unfold c2. rewrite run_app, run_cons. fold c1. unfold step_conf. rewrite Hstep. reflexivity. }
  destruct (step_effect _ _ _ _ Hstep) as [Hlen [_ [_ Heff]]].
  assert (exists o, nth_error (ops (fst c1)) i = Some o) as [o Ho].
  { unfold step in Hstep. clear - Hstep Hst.
    destruct (Nat.eqb t1 0).
    { exfalso. unfold step_timer, with_op in Hstep. destruct (tpc (fst c1)); try discriminate;
        try (destruct (mlocked (fst c1)); try discriminate); try (destruct (_ || _); try discriminate);
        try (destruct (nth_error (ops (fst c1)) i0) as [o|]; [|discriminate]);
        try (destruct (slock o); try discriminate); try (destruct (cb o); try discriminate);
        inversion Hstep; subst; cbn in Hst; try (destruct (sreq o)); cbn in Hst; intuition discriminate. }
    destruct (Nat.leb t1 (nops (fst c1))).
    { unfold step_starter in Hstep. destruct (nth_error (ops (fst c1)) (t1 - 1)) as [o|] eqn:Hn; [|discriminate].
      destruct (spc o); try (destruct (sreq o)); try (destruct (slock o)); try (destruct (mlocked (fst c1)));
        try discriminate; try (inversion Hstep; subst; cbn in Hst; destruct Hst as [Hx|[]]; try discriminate; inversion Hx; subst; eauto).
      all: exfalso; unfold step_cb in Hstep; destruct (cpc o); try (destruct (mlocked (fst c1))); try (destruct (now (fst c1) <? dueT o));
        try (destruct (linkedb _ _)); try discriminate; inversion Hstep; subst; cbn in Hst; intuition discriminate. }
    exfalso. destruct (Nat.leb t1 (2 * nops (fst c1))).
    { unfold step_stopper in Hstep. destruct (nth_error (ops (fst c1)) (t1 - 1 - nops (fst c1))) as [o|]; [|discriminate].
      destruct (kpc o); try (destruct (sreq o)); try (destruct (slock o)); try (destruct (cb o));
        try discriminate; try (inversion Hstep; subst; cbn in Hst; intuition discriminate).
      all: unfold step_cb in Hstep; destruct (cpc o); try (destruct (mlocked (fst c1))); try (destruct (now (fst c1) <? dueT o));
        try (destruct (linkedb _ _)); try discriminate; inversion Hstep; subst; cbn in Hst; intuition discriminate. }
    destruct (Nat.eqb t1 (2 * nops (fst c1) + 1)).
    { unfold step_destroyer in Hstep. destruct (dpc (fst c1)); try (destruct (mlocked (fst c1))); try (destruct (all_completed (fst c1)));
        try (destruct (tpc (fst c1))); try discriminate; inversion Hstep; subst; cbn in Hst; intuition discriminate. }
    destruct (Nat.eqb t1 (2 * nops (fst c1) + 2)).
    { unfold step_poke in Hstep. inversion Hstep; subst; cbn in Hst; intuition discriminate. }
    unfold step_clock in Hstep. inversion Hstep; subst; cbn in Hst; intuition discriminate. }
  exists o. split; [exact Ho|].
  destruct (Heff i o Ho) as [o1 [F1 [_ [_ [_ [_ F6]]]]]]. destruct (F6 Hst) as [G1 G2].
  destruct (orig_persist sched2 s1 (snd c1 ++ evs1) i o1 _ F1 G1 G2) as [o2 [H1 [H2 H3]]]. fold c2 in H1.
  pose proof (never_early now0 specs (sched1 ++ t1 :: sched2) i t) as Hne. cbv zeta in Hne. rewrite <- Ec in Hne.
  destruct (Hne Hin) as [o3 [d [K1 [K2 K3]]]]. rewrite H1 in K1. inversion K1; subst o3. rewrite H3 in K2. inversion K2; subst d. exact K3.
Qed.
(* ------------------------------------------------------------------------------------------- *)
(* exactly once                                                                                 *)

(* completions of operation i, counted in the trace (set_value and set_done events) *)
Theorem at_most_once : forall now0 specs sched i o,
  let c := run step sched (init now0 specs, []) in
  nth_error (ops (fst c)) i = Some o ->
  (ccount i (snd c) <= 1)%nat /\ ccount i (snd c) = ncomp o /\
  ((1 <= ccount i (snd c))%nat -> started o = true).
Proof.
  intros now0 specs sched i o c Hn. destruct (tinv_run now0 specs sched) as [HI [Hc _]]. fold c in HI, Hc.
  pose proof (oi_hold _ _ _ _ _ (proj2 HI i o Hn)) as Hh. rewrite (Hc i o Hn).
  destruct (started o); cbn in Hh; repeat split; try lia; auto.
Qed.

Lemma forallb_nth {A} : forall (f : A -> bool) l i x, forallb f l = true -> nth_error l i = Some x -> f x = true.
Proof. intros f l i x H Hn. rewrite forallb_forall in H. apply H. eapply nth_error_In; eauto. Qed.

(* nothing is lost: when nobody is in the middle of an operation, every started operation is either
   completed (exactly once) or still linked in the queue (exactly once); with an empty queue every
   started operation has completed exactly once *)
Theorem no_lost : forall now0 specs sched i o,
  let c := run step sched (init now0 specs, []) in
  quiescent (fst c) = true -> nth_error (ops (fst c)) i = Some o -> started o = true ->
  (ccount i (snd c) + cnt i (q (fst c)) = 1)%nat /\ (q (fst c) = [] -> ccount i (snd c) = 1%nat).
Proof.
  intros now0 specs sched i o c Hq Hn Hs. destruct (tinv_run now0 specs sched) as [HI [Hc _]]. fold c in HI, Hc.
  pose proof (oi_hold _ _ _ _ _ (proj2 HI i o Hn)) as Hh. rewrite (Hc i o Hn).
  unfold quiescent in Hq. apply andb_true_iff in Hq. destruct Hq as [Ht Ho].
  pose proof (forallb_nth _ _ _ _ Ho Hn) as Hi. cbv beta in Hi.
  apply andb_true_iff in Hi. destruct Hi as [Hi Hcb]. apply andb_true_iff in Hi. destruct Hi as [Hst Hk].
  assert (sholds o = false) as Es by (unfold sholds, starter_idle in *; destruct (spc o); try discriminate; reflexivity).
  assert (cholds o = false) as Ec by (unfold cholds, callback_idle in *; destruct (cpc o); try discriminate; reflexivity).
  assert (tholds i (tpc (fst c)) = false) as Et by (unfold timer_idle in Ht; destruct (tpc (fst c)); try discriminate; reflexivity).
  rewrite Es, Ec, Et, Hs in Hh. cbn in Hh. split; [lia|]. intros Eq. rewrite Eq in Hh. cbn in Hh. lia.
Qed.

(* the context holds no reference to a completed operation: it is not in the queue and no
   thread is between unlinking and re-linking it or executing it *)
Theorem unlinked_after_completion : forall now0 specs sched i o,
  let c := run step sched (init now0 specs, []) in
  nth_error (ops (fst c)) i = Some o -> (1 <= ccount i (snd c))%nat ->
  ~ In i (map id (q (fst c))) /\ sholds o = false /\ cholds o = false /\ tholds i (tpc (fst c)) = false.
Proof.
  intros now0 specs sched i o c Hn H1. destruct (tinv_run now0 specs sched) as [HI [Hc _]]. fold c in HI, Hc.
  pose proof (oi_hold _ _ _ _ _ (proj2 HI i o Hn)) as Hh. rewrite (Hc i o Hn) in H1.
  rewrite <- cnt_zero_notin.
  destruct (started o), (sholds o), (cholds o), (tholds i (tpc (fst c))); cbn in Hh; repeat split; try lia.
Qed.

(* ------------------------------------------------------------------------------------------- *)
(* cancel promptly                                                                              *)

Lemma sorted_due_before : forall l1 x l2, sorted_due (l1 ++ x :: l2) -> Forall (fun y => due y <= due x) l1.
Proof.
  induction l1 as [|a l1 IH]; intros x l2 H; [constructor|].
  cbn [app] in H. apply sorted_due_cons in H. destruct H as [Ha Hs]. constructor.
  - rewrite Forall_forall in Ha. apply Ha. apply in_or_app. right. left. reflexivity.
  - eapply IH; eauto.
Qed.

(* once the cancel callback has passed its critical section the operation's due time is <= now;
   if it is (again) in the queue, its entry and every entry in front of it are due, so the timer
   thread pops them without waiting, whatever later timers are queued behind *)
Theorem cancel_prompt : forall now0 specs sched i o,
  let c := run step sched (init now0 specs, []) in
  let s := fst c in
  nth_error (ops s) i = Some o -> cancelled o = true ->
  dueT o <= now s /\
  forall l1 d l2, q s = l1 ++ (d, i) :: l2 ->
    d = dueT o /\ Forall (fun y => due y <= now s) (l1 ++ [(d, i)]).
Proof.
  intros now0 specs sched i o c s Hn Hc. pose proof (inv_run now0 specs sched) as [[Hs [Hnd Hq]] Ho].
  fold c in Hs, Hnd, Hq, Ho. fold s in Hs, Hnd, Hq, Ho.
  pose proof (oi_cdue _ _ _ _ _ (Ho i o Hn) Hc) as Hd. split; [exact Hd|].
  intros l1 d l2 Eq. rewrite Eq in Hs, Hq.
  destruct (Hq (d, i)) as [o1 [E1 E2]]; [apply in_or_app; right; left; reflexivity|].
  cbn in E1, E2. rewrite Hn in E1. inversion E1; subst o1. split; [symmetry; exact E2|].
  apply Forall_app. split.
  - eapply Forall_impl; [|apply (sorted_due_before _ _ _ Hs)]. cbn. intros y Hy. lia.
  - constructor; [cbn; lia | constructor].
Qed.

(* ------------------------------------------------------------------------------------------- *)
(* order                                                                                        *)

Theorem queue_sorted : forall now0 specs sched,
  let s := fst (run step sched (init now0 specs, [])) in
  sorted_due (q s) /\ NoDup (map id (q s)) /\
  forall x tl, q s = x :: tl -> Forall (fun y => due x <= due y) tl.
Proof.
  intros now0 specs sched s. pose proof (inv_run now0 specs sched) as [[Hs [Hnd _]] _]. fold s in Hs, Hnd.
  split; [exact Hs|]. split; [exact Hnd|]. intros x tl E. rewrite E in Hs. apply sorted_due_cons in Hs. tauto.
Qed.

(* the timer thread removes nothing but the head, and only when it is due *)
Theorem timer_takes_head : forall s s' evs,
  step 0 s = Some (s', evs) ->
  q s' = q s \/ exists x, q s = x :: q s' /\ due x <= now s /\ tpc s' = TUnlockExec (id x).
Proof.
  intros s s' evs H. unfold step in H. cbn in H. unfold step_timer, with_op in H.
  assert (Hd : forall s0, q (decide s0) = q s0 \/ exists x, q s0 = x :: q (decide s0) /\ due x <= now s0 /\ tpc (decide s0) = TUnlockExec (id x)).
  { intros s0. unfold decide. destruct (stopflag s0); [left; reflexivity|]. destruct (q s0) as [|x tl] eqn:E; [left; cbn; auto|].
    destruct (due x <=? now s0) eqn:El; [|left; cbn; auto]. right. exists x. cbn. apply Z.leb_le in El. auto. }
  destruct (tpc s); try discriminate;
    try (destruct (mlocked s); try discriminate); try (destruct (_ || _); try discriminate);
    try (destruct (nth_error (ops s) i) as [o|]; [|discriminate]);
    try (destruct (slock o); try discriminate); try (destruct (cb o); try discriminate);
    inversion H; subst; clear H; try (left; reflexivity); apply (Hd (set_m s true)).
Qed.
(* ------------------------------------------------------------------------------------------- *)
(* FIFO among equal due times                                                                   *)

Definition seqof (os : list op) (i : nat) : nat :=
  match nth_error os i with Some o => eseq o | None => 0%nat end.

(* queue order: by due time, ties by the sequence number of the enqueue *)
Definition lexlt (os : list op) (x y : timer) : Prop :=
  due x < due y \/ (due x = due y /\ (seqof os (id x) < seqof os (id y))%nat).

Definition FInv (s : st) : Prop :=
  StronglySorted (lexlt (ops s)) (q s) /\ Forall (fun x => (seqof (ops s) (id x) < nenq s)%nat) (q s).

Lemma seqof_put_same : forall os i o o' j,
  nth_error os i = Some o -> eseq o' = eseq o -> seqof (set_nth i o' os) j = seqof os j.
Proof.
  intros os i o o' j Hn He. unfold seqof. destruct (Nat.eq_dec i j) as [E|E].
  - subst j. rewrite (nth_set_nth_eq _ _ _ _ Hn), Hn. exact He.
  - rewrite nth_set_nth_neq by exact E. reflexivity.
Qed.

Lemma seqof_put_other : forall os i o' j, i <> j -> seqof (set_nth i o' os) j = seqof os j.
Proof. intros. unfold seqof. rewrite nth_set_nth_neq by assumption. reflexivity. Qed.

Lemma seqof_put_eq : forall os i o o', nth_error os i = Some o -> seqof (set_nth i o' os) i = eseq o'.
Proof. intros. unfold seqof. rewrite (nth_set_nth_eq _ _ _ _ H). reflexivity. Qed.

(* how a step changes the queue and the sequence numbers *)
Definition qeff (s s' : st) : Prop :=
  (q s' = q s /\ nenq s' = nenq s /\ forall j, seqof (ops s') j = seqof (ops s) j) \/
  (exists i d, q s' = insert_timed (d, i) (q s) /\ nenq s' = S (nenq s) /\ seqof (ops s') i = nenq s /\
               (forall j, j <> i -> seqof (ops s') j = seqof (ops s) j) /\
               exists o, nth_error (ops s) i = Some o /\ (sholds o = true \/ cholds o = true)) \/
  (exists i, q s' = heap_remove i (q s) /\ nenq s' = nenq s /\ forall j, seqof (ops s') j = seqof (ops s) j) \/
  (exists x, q s = x :: q s' /\ nenq s' = nenq s /\ forall j, seqof (ops s') j = seqof (ops s) j).

Ltac q_same Hn := left; split; [reflexivity|]; split; [reflexivity|]; intros; cbn; first [reflexivity | eapply seqof_put_same; [exact Hn | reflexivity]].

Lemma decide_qeff : forall s s0, q s0 = q s -> nenq s0 = nenq s -> ops s0 = ops s -> qeff s (decide s0).
Proof.
  intros s s0 Eq En Eo. unfold decide. destruct (stopflag s0).
  { left. cbn. rewrite Eq, En, Eo. auto. }
  destruct (q s0) as [|x tl] eqn:E.
  { left. cbn. rewrite <- Eq, En, Eo, E. auto. }
  destruct (due x <=? now s0).
  - right. right. right. exists x. cbn. rewrite <- Eq, En, Eo. auto.
  - left. cbn. rewrite <- Eq, En, Eo, E. auto.
Qed.

Lemma cb_qeff : forall fin i o s s' evs, nth_error (ops s) i = Some o ->
  (forall o', eseq (fin o') = eseq o') ->
  step_cb fin i o s = Some (s', evs) -> qeff s s'.
Proof.
  intros fin i o s s' evs Hn Hfin H. unfold step_cb in H.
  destruct (cpc o) eqn:Hc; try discriminate.
  - destruct (mlocked s); [discriminate|]. destruct (now s <? dueT o); [destruct (linkedb i (q s))|];
      inversion H; subst; clear H; try (q_same Hn).
    right. right. left. exists i. split; [reflexivity|]. split; [reflexivity|]. intros. cbn. eapply seqof_put_same; [exact Hn | reflexivity].
  - inversion H; subst; clear H; q_same Hn.
  - destruct (mlocked s); [discriminate|]. inversion H; subst; clear H.
    right. left. exists i, (dueT o). cbn. split; [reflexivity|]. split; [reflexivity|]. split; [|split].
    + rewrite (seqof_put_eq _ _ _ _ Hn). destruct (at_head _ _); reflexivity.
    + intros j Hj. apply seqof_put_other. congruence.
    + exists o. split; [exact Hn|]. right. unfold cholds. rewrite Hc. reflexivity.
  - inversion H; subst; clear H; q_same Hn.
  - inversion H; subst; clear H. left. split; [reflexivity|]. split; [reflexivity|]. intros. cbn.
    eapply seqof_put_same; [exact Hn | rewrite Hfin; reflexivity].
  - inversion H; subst; clear H. left. split; [reflexivity|]. split; [reflexivity|]. intros. cbn.
    eapply seqof_put_same; [exact Hn | rewrite Hfin; reflexivity].
Qed.

Lemma step_qeff : forall s t s' evs, step t s = Some (s', evs) -> qeff s s'.
Proof.
  intros s t s' evs H. unfold step in H.
  destruct (Nat.eqb t 0).
  { unfold step_timer, with_op in H. destruct (tpc s) as [ |dl|dl ntf|i|i|i w|i|i| | ] eqn:Et.
    - destruct (mlocked s); [discriminate|]. inversion H; subst; clear H. apply decide_qeff; reflexivity.
    - inversion H; subst; clear H. left. cbn. auto.
    - destruct (mlocked s); [discriminate|]. destruct (_ || _); [|discriminate]. inversion H; subst; clear H. apply decide_qeff; reflexivity.
    - destruct (nth_error (ops s) i) as [o|] eqn:Hn; [|discriminate]. inversion H; subst; clear H. left. cbn. auto.
    - destruct (nth_error (ops s) i) as [o|] eqn:Hn; [|discriminate]. destruct (slock o); [discriminate|].
      destruct (cb o); inversion H; subst; clear H; q_same Hn.
    - destruct (nth_error (ops s) i) as [o|] eqn:Hn; [|discriminate]. inversion H; subst; clear H; q_same Hn.
    - destruct (nth_error (ops s) i) as [o|] eqn:Hn; [|discriminate]. destruct (cb o); try discriminate.
      inversion H; subst; clear H; q_same Hn.
    - destruct (nth_error (ops s) i) as [o|] eqn:Hn; [|discriminate]. inversion H; subst; clear H; q_same Hn.
    - inversion H; subst; clear H. left. cbn. auto.
    - discriminate. }
  destruct (Nat.leb t (nops s)).
  { unfold step_starter in H. remember (t - 1)%nat as i. clear Heqi.
    destruct (nth_error (ops s) i) as [o|] eqn:Hn; [|discriminate].
    destruct (spc o) eqn:Hs.
    - inversion H; subst; clear H; q_same Hn.
    - destruct (sreq o); [|destruct (slock o); [discriminate|]]; inversion H; subst; clear H; q_same Hn.
    - inversion H; subst; clear H; q_same Hn.
    - eapply (cb_qeff _ i o s s' evs Hn); [|exact H]. reflexivity.
    - destruct (mlocked s); [discriminate|]. inversion H; subst; clear H.
      right. left. exists i, (dueT o). cbn. split; [reflexivity|]. split; [reflexivity|]. split; [|split].
      + rewrite (seqof_put_eq _ _ _ _ Hn). destruct (at_head _ _); reflexivity.
      + intros j Hj. apply seqof_put_other. congruence.
      + exists o. split; [exact Hn|]. left. unfold sholds. rewrite Hs. reflexivity.
    - inversion H; subst; clear H; q_same Hn.
    - inversion H; subst; clear H; q_same Hn.
    - discriminate. }
  destruct (Nat.leb t (2 * nops s)).
  { unfold step_stopper in H. remember (t - 1 - nops s)%nat as i. clear Heqi.
    destruct (nth_error (ops s) i) as [o|] eqn:Hn; [|discriminate].
    destruct (kpc o) eqn:Hk.
    - destruct (sreq o); [|destruct (slock o); [discriminate|]; destruct (cb o)]; inversion H; subst; clear H; q_same Hn.
    - inversion H; subst; clear H; q_same Hn.
    - eapply (cb_qeff _ i o s s' evs Hn); [|exact H]. reflexivity.
    - inversion H; subst; clear H; q_same Hn.
    - destruct (slock o); [discriminate|]. inversion H; subst; clear H; q_same Hn.
    - inversion H; subst; clear H; q_same Hn.
    - discriminate. }
  destruct (Nat.eqb t (2 * nops s + 1)).
  { unfold step_destroyer in H. destruct (dpc s).
    - destruct (mlocked s); [discriminate|]. destruct (all_completed s); [|discriminate]. inversion H; subst; clear H. left. cbn. auto.
    - inversion H; subst; clear H. left. cbn. auto.
    - inversion H; subst; clear H. left. cbn. auto.
    - destruct (tpc s); try discriminate. inversion H; subst; clear H. left. cbn. auto.
    - discriminate. }
  destruct (Nat.eqb t (2 * nops s + 2)).
  { unfold step_poke in H. inversion H; subst; clear H. left. cbn. auto. }
  unfold step_clock in H. inversion H; subst; clear H. left. cbn. auto.
Qed.

Lemma SS_ext {A} : forall (R R' : A -> A -> Prop) l,
  StronglySorted R l -> (forall x y, In x l -> In y l -> R x y -> R' x y) -> StronglySorted R' l.
Proof.
  intros R R' l H. induction H as [|a l Hs IH Hf]; intros Hx; constructor.
  - apply IH. intros x y Hi Hj. apply Hx; right; assumption.
  - rewrite Forall_forall in *. intros y Hy. apply Hx; [left; reflexivity | right; exact Hy | apply Hf, Hy].
Qed.

Lemma SS_insert {A} : forall (R : A -> A -> Prop) l1 l2 z,
  StronglySorted R (l1 ++ l2) -> Forall (fun a => R a z) l1 -> Forall (R z) l2 ->
  StronglySorted R (l1 ++ z :: l2).
Proof.
  intros R l1. induction l1 as [|a l1 IH]; intros l2 z H F1 F2; cbn [app] in *.
  - constructor; assumption.
  - inversion H as [|a' l' Hs Hf]; subst. inversion F1; subst. constructor.
    + apply IH; assumption.
    + rewrite Forall_forall in *. intros y Hy. apply in_app_or in Hy. destruct Hy as [Hy|[<-|Hy]].
      * apply Hf. apply in_or_app. left. exact Hy.
      * assumption.
      * apply Hf. apply in_or_app. right. exact Hy.
Qed.

Lemma SS_remove : forall (R : timer -> timer -> Prop) i l,
  StronglySorted R l -> StronglySorted R (heap_remove i l).
Proof.
  intros R i l H. induction H as [|a l Hs IH Hf]; cbn [heap_remove]; [constructor|].
  destruct (Nat.eqb (id a) i); [exact Hs|]. constructor; [exact IH|]. apply heap_remove_Forall. exact Hf.
Qed.

Lemma SS_before {A} : forall (R : A -> A -> Prop) l1 x l2 y l3,
  StronglySorted R (l1 ++ x :: l2 ++ y :: l3) -> R x y.
Proof.
  intros R l1. induction l1 as [|a l1 IH]; intros x l2 y l3 H; cbn [app] in H.
  - inversion H as [|a' l' Hs Hf]; subst. rewrite Forall_forall in Hf. apply Hf. apply in_or_app. right. left. reflexivity.
  - inversion H; subst. eapply IH; eauto.
Qed.

Lemma finv_step : forall s t s' evs, Inv s -> FInv s -> step t s = Some (s', evs) -> FInv s'.
Proof.
  intros s t s' evs HI [Hss Hlt] H. pose proof HI as [[Hs [Hnd Hq]] Ho].
  destruct (step_qeff _ _ _ _ H) as [[Eq [En Es]] | [[i [d [Eq [En [Ei [Es [o [Hn Hh]]]]]]]] | [[i [Eq [En Es]]] | [x [Eq [En Es]]]]]].
  - split; rewrite Eq, ?En.
    + eapply SS_ext; [exact Hss|]. intros x y _ _ [Hl|[He Hl]]; [left; exact Hl | right; rewrite !Es; auto].
    + eapply Forall_impl; [|exact Hlt]. intros x Hx. cbn in *. rewrite Es. exact Hx.
  - (* insertion of i, which is not in the queue *)
    assert (Hni : ~ In i (map id (q s))).
    { apply cnt_zero_notin. pose proof (oi_hold _ _ _ _ _ (Ho i o Hn)) as Hc.
      destruct Hh as [Hh|Hh]; rewrite Hh in Hc; destruct (started o); cbn in Hc; lia. }
    assert (Hold : forall x, In x (q s) -> seqof (ops s') (id x) = seqof (ops s) (id x)).
    { intros x Hx. apply Es. intros E. apply Hni. rewrite <- E. apply in_map. exact Hx. }
    destruct (insert_timed_split (d, i) (q s) Hs) as [l1 [l2 [E1 [E2 [F1 F2]]]]].
    split; rewrite Eq, ?En, E2.
    + apply SS_insert.
      * rewrite <- E1. eapply SS_ext; [exact Hss|]. intros x y Hx Hy [Hl|[He Hl]]; [left; exact Hl | right; rewrite !Hold; auto].
      * rewrite Forall_forall in *. intros a Ha. specialize (F1 a Ha). cbn in F1.
        assert (Hin : In a (q s)) by (rewrite E1; apply in_or_app; left; exact Ha).
        destruct (Z.eq_dec (due a) d) as [E|E]; [right | left; cbn; lia].
        split; [exact E|]. cbn. rewrite Ei, Hold by exact Hin. apply (Hlt a Hin).
      * rewrite Forall_forall in *. intros b Hb. left. apply (F2 b Hb).
    + rewrite <- E2. apply Forall_forall. intros x Hx. apply insert_timed_In in Hx. destruct Hx as [-> | Hx].
      * cbn. rewrite Ei. lia.
      * rewrite Hold by exact Hx. rewrite Forall_forall in Hlt. specialize (Hlt x Hx). lia.
  - split; rewrite Eq, ?En.
    + apply SS_remove. eapply SS_ext; [exact Hss|]. intros x y _ _ [Hl|[He Hl]]; [left; exact Hl | right; rewrite !Es; auto].
    + apply heap_remove_Forall. eapply Forall_impl; [|exact Hlt]. intros x Hx. cbn in *. rewrite Es. exact Hx.
  - rewrite Eq in Hss, Hlt. inversion Hss; subst. inversion Hlt; subst. split; rewrite ?En.
    + eapply SS_ext; [eassumption|]. intros a b _ _ [Hl|[He Hl]]; [left; exact Hl | right; rewrite !Es; auto].
    + eapply Forall_impl; [|eassumption]. intros a Ha. cbn in *. rewrite Es. exact Ha.
Qed.

Lemma finv_run : forall now0 specs sched, FInv (fst (run step sched (init now0 specs, []))).
Proof.
  intros now0 specs sched.
  enough (H : Inv (fst (run step sched (init now0 specs, []))) /\ FInv (fst (run step sched (init now0 specs, [])))) by tauto.
  apply (run_invariant_state _ _ _ step (fun s => Inv s /\ FInv s)).
  - intros s t s' ev [HI HF] Hs. split; [eapply step_inv; eauto | eapply finv_step; eauto].
  - split; [apply init_inv|]. split; constructor.
Qed.

(* ties are queued in enqueue order: of two queued operations with equal due times the one whose
   (last) enqueue came first is nearer to the head; together with queue_sorted and timer_takes_head:
   the timer thread completes operations in non-decreasing due-time order, ties in submission order *)
Theorem fifo_ties : forall now0 specs sched l1 x l2 y l3,
  let s := fst (run step sched (init now0 specs, [])) in
  q s = l1 ++ x :: l2 ++ y :: l3 -> due x = due y ->
  (seqof (ops s) (id x) < seqof (ops s) (id y))%nat.
Proof.
  intros now0 specs sched l1 x l2 y l3 s Eq Hd. destruct (finv_run now0 specs sched) as [Hss _]. fold s in Hss.
  rewrite Eq in Hss. destruct (SS_before _ _ _ _ _ _ Hss) as [Hl|[_ Hl]]; [lia | exact Hl].
Qed.

(* sequence numbers are handed out in increasing order by the enqueues *)
Theorem enqueue_numbers : forall s t s' evs,
  step t s = Some (s', evs) ->
  nenq s' = nenq s \/ (nenq s' = S (nenq s) /\ exists i d, q s' = insert_timed (d, i) (q s) /\ seqof (ops s') i = nenq s).
Proof.
  intros s t s' evs H.
  destruct (step_qeff _ _ _ _ H) as [[Eq [En Es]] | [[i [d [Eq [En [Ei _]]]]] | [[i [Eq [En Es]]] | [x [Eq [En Es]]]]]]; auto.
  right. split; [exact En|]. exists i, d. auto.
Qed.
(* ------------------------------------------------------------------------------------------- *)
(* mutual exclusion on mutex_ and no lost wake-up                                               *)

Definition thold (p : tpc_t) : bool :=
  match p with TWaitGo _ | TUnlockExec _ | TExitUnlock => true | _ => false end.
Definition shold (o : op) : bool := match spc o with SEnqNotify | SEnqUnlock => true | _ => false end.
Definition chold (o : op) : bool :=
  match cpc o with CUnlockRequeue | CEnqNotify | CEnqUnlock | CUnlockDone => true | _ => false end.
Definition dhold (d : dpc_t) : bool := match d with DNotify | DUnlock => true | _ => false end.
Definition oh (o : op) : nat := (b2n (shold o) + b2n (chold o))%nat.
Definition hsum (os : list op) : nat := fold_right (fun o acc => (oh o + acc)%nat) 0%nat os.
(* about to call cv_.notify_one() after inserting at the head *)
Definition pend (o : op) : bool :=
  match spc o with SEnqNotify => true | _ => false end || match cpc o with CEnqNotify => true | _ => false end.
Definition pcount (os : list op) : nat := fold_right (fun o acc => (b2n (pend o) + acc)%nat) 0%nat os.

Arguments hsum : simpl never.
Arguments pcount : simpl never.
Arguments oh : simpl never.

(* number of threads inside a critical section of mutex_ = 1 if it is locked, 0 otherwise *)
Definition MInv (s : st) : Prop :=
  (b2n (thold (tpc s)) + hsum (ops s) + b2n (dhold (dpc s)) = b2n (mlocked s))%nat.

Lemma hsum_set_nth : forall os i o o', nth_error os i = Some o ->
  (hsum (set_nth i o' os) + oh o = hsum os + oh o')%nat.
Proof.
  induction os as [|a os IH]; intros [|i] o o' H; unfold hsum in *; cbn [fold_right set_nth nth_error] in *; try discriminate.
  - inversion H; subst. lia.
  - specialize (IH i o o' H). lia.
Qed.

Lemma pcount_set_nth : forall os i o o', nth_error os i = Some o ->
  (pcount (set_nth i o' os) + b2n (pend o) = pcount os + b2n (pend o'))%nat.
Proof.
  induction os as [|a os IH]; intros [|i] o o' H; unfold pcount in *; cbn [fold_right set_nth nth_error] in *; try discriminate.
  - inversion H; subst. lia.
  - specialize (IH i o o' H). lia.
Qed.

Lemma pcount_ge : forall os i o, nth_error os i = Some o -> (b2n (pend o) <= pcount os)%nat.
Proof.
  induction os as [|a os IH]; intros [|i] o H; unfold pcount in *; cbn [fold_right nth_error] in *; try discriminate.
  - inversion H; subst. lia.
  - specialize (IH i o H). lia.
Qed.

Lemma thold_notify : forall p, thold (notify p) = thold p.
Proof. intros [ | | | | | | | | | ]; reflexivity. Qed.

Lemma decide_m : forall s, mlocked (decide s) = mlocked s /\ dpc (decide s) = dpc s /\ ops (decide s) = ops s /\ thold (tpc (decide s)) = true.
Proof.
  intros s. unfold decide. destruct (stopflag s); [cbn; auto|]. destruct (q s); [cbn; auto|]. destruct (_ <=? _); cbn; auto.
Qed.

Ltac m_op Hn :=
  unfold MInv in *; cbn;
  match goal with |- context [hsum (set_nth ?i ?o' ?os)] => pose proof (hsum_set_nth os i _ o' Hn) as Hsum end;
  unfold oh, shold, chold, b2n in *; cbn in *;
  rewrite ?thold_notify in *;
  repeat match goal with H : spc _ = _ |- _ => rewrite H in * | H : cpc _ = _ |- _ => rewrite H in * | H : mlocked _ = _ |- _ => rewrite H in * end;
  cbn in *; try lia.

Lemma cb_minv : forall fin i o s s' evs, MInv s -> nth_error (ops s) i = Some o ->
  (cpc (fin (set_cpc o CFin)) = CFin /\ shold (fin (set_cpc o CFin)) = shold o) ->
  step_cb fin i o s = Some (s', evs) -> MInv s'.
Proof.
  intros fin i o s s' evs HM Hn Hfin H. unfold step_cb in H.
  destruct (cpc o) eqn:Hc; try discriminate.
  - destruct (mlocked s) eqn:Hm; [discriminate|]. destruct (now s <? dueT o); [destruct (linkedb i (q s))|];
      inversion H; subst; clear H; m_op Hn.
  - inversion H; subst; clear H; m_op Hn. destruct (mlocked s); lia.
  - destruct (mlocked s) eqn:Hm; [discriminate|]. inversion H; subst; clear H.
    destruct (at_head (dueT o, i) (q s)); m_op Hn.
  - inversion H; subst; clear H; m_op Hn.
  - inversion H; subst; clear H. unfold MInv in *. cbn.
    pose proof (hsum_set_nth (ops s) i _ (fin (set_cpc o CFin)) Hn) as Hsum.
    destruct Hfin as [F1 F2]. unfold oh, chold in *. rewrite F1, F2 in Hsum. cbn in Hsum. rewrite Hc in Hsum.
    unfold b2n in *. cbn in *. destruct (mlocked s); lia.
  - inversion H; subst; clear H. unfold MInv in *. cbn.
    pose proof (hsum_set_nth (ops s) i _ (fin (set_cpc o CFin)) Hn) as Hsum.
    destruct Hfin as [F1 F2]. unfold oh, chold in *. rewrite F1, F2 in Hsum. cbn in Hsum. rewrite Hc in Hsum.
    unfold b2n in *. cbn in *. destruct (mlocked s); lia.
Qed.

Lemma cb_minv_s : forall i o s s' evs, MInv s -> nth_error (ops s) i = Some o -> spc o = SCb ->
  step_cb (fun o' => set_spc o' SEnqLock) i o s = Some (s', evs) -> MInv s'.
Proof.
  intros i o s s' evs HM Hn Hs H. eapply cb_minv; eauto. split; [reflexivity|]. unfold shold. cbn. rewrite Hs. reflexivity.
Qed.

Lemma cb_minv_k : forall i o s s' evs, MInv s -> nth_error (ops s) i = Some o ->
  step_cb (fun o' => set_kpc o' KCompleted) i o s = Some (s', evs) -> MInv s'.
Proof.
  intros i o s s' evs HM Hn H. eapply cb_minv; eauto. split; reflexivity.
Qed.

Lemma minv_step : forall s t s' evs, Inv s -> MInv s -> step t s = Some (s', evs) -> MInv s'.
Proof.
  intros s t s' evs HI HM H. unfold step in H.
  destruct (Nat.eqb t 0).
  { unfold step_timer, with_op in H. destruct (tpc s) as [ |dl|dl ntf|i|i|i w|i|i| | ] eqn:Et.
    - destruct (mlocked s) eqn:Hm; [discriminate|]. inversion H; subst; clear H.
      destruct (decide_m (set_m s true)) as [E1 [E2 [E3 E4]]]. unfold MInv in *. rewrite E1, E2, E3, E4. rewrite Et, Hm in HM. cbn in *. lia.
    - inversion H; subst; clear H. unfold MInv in *. rewrite Et in HM. cbn in *. destruct (mlocked s); cbn in *; lia.
    - destruct (mlocked s) eqn:Hm; [discriminate|]. destruct (_ || _); [|discriminate]. inversion H; subst; clear H.
      destruct (decide_m (set_m s true)) as [E1 [E2 [E3 E4]]]. unfold MInv in *. rewrite E1, E2, E3, E4. rewrite Et, Hm in HM. cbn in *. lia.
    - destruct (nth_error (ops s) i) as [o|] eqn:Hn; [|discriminate]. inversion H; subst; clear H.
      unfold MInv in *. rewrite Et in HM. cbn in *. destruct (cb o); destruct (mlocked s); cbn in *; lia.
    - destruct (nth_error (ops s) i) as [o|] eqn:Hn; [|discriminate]. destruct (slock o); [discriminate|].
      unfold MInv in HM; rewrite Et in HM. destruct (cb o); inversion H; subst; clear H; m_op Hn.
    - destruct (nth_error (ops s) i) as [o|] eqn:Hn; [|discriminate]. inversion H; subst; clear H.
      unfold MInv in HM; rewrite Et in HM. destruct w; m_op Hn.
    - destruct (nth_error (ops s) i) as [o|] eqn:Hn; [|discriminate]. destruct (cb o); try discriminate.
      inversion H; subst; clear H. unfold MInv in HM; rewrite Et in HM. m_op Hn.
    - destruct (nth_error (ops s) i) as [o|] eqn:Hn; [|discriminate]. inversion H; subst; clear H.
      unfold MInv in HM; rewrite Et in HM. m_op Hn.
    - inversion H; subst; clear H. unfold MInv in *. rewrite Et in HM. cbn in *. destruct (mlocked s); cbn in *; lia.
    - discriminate. }
  destruct (Nat.leb t (nops s)).
  { unfold step_starter in H. remember (t - 1)%nat as i. clear Heqi.
    destruct (nth_error (ops s) i) as [o|] eqn:Hn; [|discriminate].
    destruct (spc o) eqn:Hs.
    - inversion H; subst; clear H; m_op Hn.
    - assert (Hci : cpc o = CIdle).
      { destruct (oi_h1 _ _ _ _ _ (proj2 HI i o Hn)) as [Hx _]; [unfold early; rewrite Hs; reflexivity|].
        unfold cidle in Hx. destruct (cpc o); try discriminate; reflexivity. }
      destruct (sreq o); [|destruct (slock o); [discriminate|]]; inversion H; subst; clear H; m_op Hn.
    - inversion H; subst; clear H; m_op Hn.
    - eapply (cb_minv_s i o s s' evs HM Hn Hs H).
    - destruct (mlocked s) eqn:Hm; [discriminate|]. inversion H; subst; clear H.
      destruct (at_head (dueT o, i) (q s)); m_op Hn.
    - inversion H; subst; clear H; m_op Hn.
    - inversion H; subst; clear H; m_op Hn. destruct (mlocked s); lia.
    - discriminate. }
  destruct (Nat.leb t (2 * nops s)).
  { unfold step_stopper in H. remember (t - 1 - nops s)%nat as i. clear Heqi.
    destruct (nth_error (ops s) i) as [o|] eqn:Hn; [|discriminate].
    destruct (kpc o) eqn:Hk.
    - destruct (sreq o); [|destruct (slock o); [discriminate|]; destruct (cb o)]; inversion H; subst; clear H; m_op Hn.
    - assert (Hci : cpc o = CIdle).
      { destruct (oi_h2 _ _ _ _ _ (proj2 HI i o Hn) Hk) as [_ [Hx _]].
        unfold cidle in Hx. destruct (cpc o); try discriminate; reflexivity. }
      inversion H; subst; clear H; m_op Hn.
    - eapply (cb_minv_k i o s s' evs HM Hn H).
    - inversion H; subst; clear H; m_op Hn.
    - destruct (slock o); [discriminate|]. inversion H; subst; clear H; m_op Hn.
    - inversion H; subst; clear H; m_op Hn.
    - discriminate. }
  destruct (Nat.eqb t (2 * nops s + 1)).
  { unfold step_destroyer in H. unfold MInv in *. destruct (dpc s) eqn:Ed.
    - destruct (mlocked s) eqn:Hm; [discriminate|]. destruct (all_completed s); [|discriminate]. inversion H; subst; clear H. cbn in *. lia.
    - inversion H; subst; clear H. cbn in *. rewrite thold_notify. lia.
    - inversion H; subst; clear H. cbn in *. destruct (mlocked s); cbn in *; lia.
    - destruct (tpc s) eqn:Et; try discriminate. inversion H; subst; clear H. cbn in *. rewrite Et. cbn. lia.
    - discriminate. }
  destruct (Nat.eqb t (2 * nops s + 2)).
  { unfold step_poke in H. inversion H; subst; clear H. unfold MInv in *. cbn. rewrite thold_notify. exact HM. }
  unfold step_clock in H. inversion H; subst; clear H. exact HM.
Qed.

(* the timer thread's deadline is never later than the due time of the current head *)
Definition wcond (dl : option Z) (qq : list timer) : Prop :=
  match qq with [] => True | x :: _ => match dl with Some d => d <= due x | None => False end end.

Definition WInv (s : st) : Prop :=
  match tpc s with
  | TWaitGo dl => (0 < pcount (ops s))%nat \/ wcond dl (q s)
  | TWaiting dl false => (0 < pcount (ops s))%nat \/ wcond dl (q s)
  | _ => True
  end.

Lemma wcond_insert_nothead : forall dl x l, at_head x l = false -> wcond dl l -> wcond dl (insert_timed x l).
Proof.
  intros dl x [|h tl] Ha Hw; cbn in Ha; [discriminate|]. cbn [insert_timed]. rewrite Ha.
  destruct tl as [|n tl]; cbn [walk_insert]; [exact Hw|]. destruct (due n <=? due x); exact Hw.
Qed.

Lemma wcond_remove : forall dl i l, sorted_due l -> wcond dl l -> wcond dl (heap_remove i l).
Proof.
  intros dl i [|h tl] Hs Hw; [exact Hw|]. cbn [heap_remove]. destruct (Nat.eqb (id h) i); [|exact Hw].
  destruct tl as [|y tl]; [exact I|]. cbn in *. destruct dl as [d|]; [|contradiction].
  apply sorted_due_cons in Hs. destruct Hs as [Hf _]. inversion Hf; subst. lia.
Qed.

(* what a step of a thread other than the timer thread does to the things WInv looks at *)
Definition weff (s s' : st) : Prop :=
  (tpc s' = notify (tpc s) /\ q s' = q s /\ (pcount (ops s') = pcount (ops s) \/ (0 < hsum (ops s))%nat)) \/
  (tpc s' = tpc s /\ (pcount (ops s) <= pcount (ops s'))%nat /\
     (q s' = q s \/
      (mlocked s = false /\ exists x, q s' = insert_timed x (q s) /\ (at_head x (q s) = true -> (0 < pcount (ops s'))%nat)) \/
      (mlocked s = false /\ exists i, q s' = heap_remove i (q s)))).

Ltac w_plain Hn :=
  right; split; [reflexivity|]; split;
    [ cbn; match goal with |- context [pcount (set_nth ?i ?o' ?os)] => pose proof (pcount_set_nth os i _ o' Hn) as Hp end;
      unfold pend, b2n in *; cbn in *;
      repeat match goal with H : spc _ = _ |- _ => rewrite H in * | H : cpc _ = _ |- _ => rewrite H in * end; cbn in *;
      try (destruct (cpc _); cbn in *; lia); try (destruct (spc _); cbn in *; lia); try lia
    | left; reflexivity ].

Lemma cb_weff : forall fin i o s s' evs, nth_error (ops s) i = Some o ->
  pend (fin (set_cpc o CFin)) = pend (set_cpc o CFin) ->
  step_cb fin i o s = Some (s', evs) -> weff s s'.
Proof.
  intros fin i o s s' evs Hn Hfin H. unfold step_cb in H.
  destruct (cpc o) eqn:Hc; try discriminate.
  - destruct (mlocked s) eqn:Hm; [discriminate|]. destruct (now s <? dueT o); [destruct (linkedb i (q s))|];
      inversion H; subst; clear H; try (w_plain Hn).
    right. split; [reflexivity|]. split.
    + cbn. pose proof (pcount_set_nth (ops s) i _ (set_cpc (set_due o (now s)) CUnlockRequeue) Hn) as Hp.
      unfold pend, b2n in *. cbn in *. rewrite Hc in *. cbn in *. lia.
    + right. right. split; [exact Hm|]. exists i. reflexivity.
  - inversion H; subst; clear H; w_plain Hn.
  - destruct (mlocked s) eqn:Hm; [discriminate|]. inversion H; subst; clear H.
    right. split; [reflexivity|].
    pose proof (pcount_set_nth (ops s) i _ (set_cpc (set_eseq o (nenq s)) (if at_head (dueT o, i) (q s) then CEnqNotify else CEnqUnlock)) Hn) as Hp.
    unfold pend, b2n in Hp. cbn in Hp. rewrite Hc in Hp. cbn [ops put do_insert set_m set_nenq set_q q].
    split.
    + destruct (at_head (dueT o, i) (q s)); cbn in Hp; destruct (spc o); cbn in Hp; lia.
    + right. left. split; [exact Hm|]. exists (dueT o, i). split; [reflexivity|]. intros Ha. rewrite Ha.
      pose proof (pcount_ge _ i _ (nth_set_nth_eq (ops s) i (set_cpc (set_eseq o (nenq s)) CEnqNotify) o Hn)) as Hg.
      unfold pend in Hg. cbn in Hg. rewrite orb_true_r in Hg. cbn in Hg. lia.
  - inversion H; subst; clear H. left. split; [reflexivity|]. split; [reflexivity|]. right.
    pose proof (hsum_set_nth (ops s) i _ o Hn) as Hh. unfold hsum in *.
    clear - Hn Hc. revert i Hn. induction (ops s) as [|a os IH]; intros [|i] Hn; cbn in *; try discriminate.
    + inversion Hn; subst. unfold oh, chold. rewrite Hc. unfold b2n. destruct (shold o); cbn; lia.
    + specialize (IH i Hn). lia.
  - inversion H; subst; clear H. right. split; [reflexivity|]. split; [|left; reflexivity].
    cbn. pose proof (pcount_set_nth (ops s) i _ (fin (set_cpc o CFin)) Hn) as Hp. rewrite Hfin in Hp.
    unfold pend, b2n in *. cbn in *. rewrite Hc in *. destruct (spc o); cbn in *; lia.
  - inversion H; subst; clear H. right. split; [reflexivity|]. split; [|left; reflexivity].
    cbn. pose proof (pcount_set_nth (ops s) i _ (fin (set_cpc o CFin)) Hn) as Hp. rewrite Hfin in Hp.
    unfold pend, b2n in *. cbn in *. rewrite Hc in *. destruct (spc o); cbn in *; lia.
Qed.

Lemma hsum_pos : forall os i o, nth_error os i = Some o -> (0 < oh o)%nat -> (0 < hsum os)%nat.
Proof.
  induction os as [|a os IH]; intros [|i] o H Hp; unfold hsum in *; cbn [fold_right nth_error] in *; try discriminate.
  - inversion H; subst. lia.
  - specialize (IH i o H Hp). lia.
Qed.

(* steps of every thread except the timer thread *)
Lemma step_weff : forall s t s' evs, Inv s -> Nat.eqb t 0 = false -> step t s = Some (s', evs) -> weff s s'.
Proof.
  intros s t s' evs HI Ht H. unfold step in H. rewrite Ht in H.
  destruct (Nat.leb t (nops s)).
  { unfold step_starter in H. remember (t - 1)%nat as i. clear Heqi.
    destruct (nth_error (ops s) i) as [o|] eqn:Hn; [|discriminate].
    destruct (spc o) eqn:Hs.
    - inversion H; subst; clear H; w_plain Hn.
    - assert (Hci : cpc o = CIdle).
      { destruct (oi_h1 _ _ _ _ _ (proj2 HI i o Hn)) as [Hx _]; [unfold early; rewrite Hs; reflexivity|].
        unfold cidle in Hx. destruct (cpc o); try discriminate; reflexivity. }
      destruct (sreq o); [|destruct (slock o); [discriminate|]]; inversion H; subst; clear H; w_plain Hn.
    - inversion H; subst; clear H; w_plain Hn.
    - eapply (cb_weff _ i o s s' evs Hn); [|exact H]. unfold pend. cbn. rewrite Hs. reflexivity.
    - destruct (mlocked s) eqn:Hm; [discriminate|]. inversion H; subst; clear H.
      right. split; [reflexivity|].
      pose proof (pcount_set_nth (ops s) i _ (set_spc (set_eseq o (nenq s)) (if at_head (dueT o, i) (q s) then SEnqNotify else SEnqUnlock)) Hn) as Hp.
      unfold pend, b2n in Hp. cbn in Hp. rewrite Hs in Hp. cbn [ops put do_insert set_m set_nenq set_q q].
      split.
      + destruct (at_head (dueT o, i) (q s)); cbn in Hp; destruct (cpc o); cbn in Hp; lia.
      + right. left. split; [exact Hm|]. exists (dueT o, i). split; [reflexivity|]. intros Ha. rewrite Ha.
        pose proof (pcount_ge _ i _ (nth_set_nth_eq (ops s) i (set_spc (set_eseq o (nenq s)) SEnqNotify) o Hn)) as Hg.
        unfold pend in Hg. cbn in Hg. lia.
    - inversion H; subst; clear H. left. split; [reflexivity|]. split; [reflexivity|]. right.
      eapply hsum_pos; [exact Hn|]. unfold oh, shold. rewrite Hs. cbn. lia.
    - inversion H; subst; clear H; w_plain Hn.
    - discriminate. }
  destruct (Nat.leb t (2 * nops s)).
  { unfold step_stopper in H. remember (t - 1 - nops s)%nat as i. clear Heqi.
    destruct (nth_error (ops s) i) as [o|] eqn:Hn; [|discriminate].
    destruct (kpc o) eqn:Hk.
    - destruct (sreq o); [|destruct (slock o); [discriminate|]; destruct (cb o)]; inversion H; subst; clear H; w_plain Hn.
    - assert (Hci : cpc o = CIdle).
      { destruct (oi_h2 _ _ _ _ _ (proj2 HI i o Hn) Hk) as [_ [Hx _]].
        unfold cidle in Hx. destruct (cpc o); try discriminate; reflexivity. }
      inversion H; subst; clear H; w_plain Hn.
    - eapply (cb_weff _ i o s s' evs Hn); [|exact H]. reflexivity.
    - inversion H; subst; clear H; w_plain Hn.
    - destruct (slock o); [discriminate|]. inversion H; subst; clear H; w_plain Hn.
    - inversion H; subst; clear H; w_plain Hn.
    - discriminate. }
  destruct (Nat.eqb t (2 * nops s + 1)).
  { unfold step_destroyer in H. destruct (dpc s) eqn:Ed.
    - destruct (mlocked s) eqn:Hm; [discriminate|]. destruct (all_completed s); [|discriminate]. inversion H; subst; clear H.
      right. cbn. split; [reflexivity|]. split; [lia|]. left. reflexivity.
    - inversion H; subst; clear H. left. cbn. auto.
    - inversion H; subst; clear H. right. cbn. split; [reflexivity|]. split; [lia|]. left. reflexivity.
    - destruct (tpc s); try discriminate. inversion H; subst; clear H. right. cbn. split; [reflexivity|]. split; [lia|]. left. reflexivity.
    - discriminate. }
  destruct (Nat.eqb t (2 * nops s + 2)).
  { unfold step_poke in H. inversion H; subst; clear H. left. cbn. auto. }
  unfold step_clock in H. inversion H; subst; clear H. right. cbn. split; [reflexivity|]. split; [lia|]. left. reflexivity.
Qed.

Lemma decide_w : forall s0, WInv (decide s0).
Proof.
  intros s0. unfold decide, WInv. destruct (stopflag s0); [exact I|].
  destruct (q s0) as [|x tl] eqn:E; cbn; [rewrite E; right; exact I|].
  destruct (due x <=? now s0); cbn; [exact I|]. rewrite E. right. cbn. lia.
Qed.

Lemma winv_step : forall s t s' evs, Inv s -> MInv s -> WInv s -> step t s = Some (s', evs) -> WInv s'.
Proof.
  intros s t s' evs HI HM HW H. destruct (Nat.eqb t 0) eqn:Ht.
  { unfold step in H. rewrite Ht in H. unfold step_timer, with_op in H.
    destruct (tpc s) as [ |dl|dl ntf|i|i|i w|i|i| | ] eqn:Et.
    - destruct (mlocked s); [discriminate|]. inversion H; subst; clear H. apply decide_w.
    - inversion H; subst; clear H. unfold WInv in *. rewrite Et in HW. cbn. exact HW.
    - destruct (mlocked s); [discriminate|]. destruct (_ || _); [|discriminate]. inversion H; subst; clear H. apply decide_w.
    - destruct (nth_error (ops s) i) as [o|]; [|discriminate]. inversion H; subst; clear H. unfold WInv. cbn. destruct (cb o); exact I.
    - destruct (nth_error (ops s) i) as [o|]; [|discriminate]. destruct (slock o); [discriminate|].
      destruct (cb o); inversion H; subst; clear H; exact I.
    - destruct (nth_error (ops s) i) as [o|]; [|discriminate]. inversion H; subst; clear H. unfold WInv. cbn. destruct w; exact I.
    - destruct (nth_error (ops s) i) as [o|]; [|discriminate]. destruct (cb o); try discriminate. inversion H; subst; clear H. exact I.
    - destruct (nth_error (ops s) i) as [o|]; [|discriminate]. inversion H; subst; clear H. exact I.
    - inversion H; subst; clear H. exact I.
    - discriminate. }
  pose proof (step_weff _ _ _ _ HI Ht H) as Hw. pose proof HI as [[Hs _] _].
  unfold WInv in *. unfold MInv in HM.
  destruct Hw as [[Et [Eq Hp]] | [Et [Hp Hq]]].
  - (* a notify *)
    rewrite Et, Eq. destruct (tpc s) as [ |dl|dl ntf| | | | | | | ] eqn:Etp; cbn; try exact I.
    + (* the timer thread holds the mutex between deciding to wait and waiting: nobody else can be at a notify *)
      destruct Hp as [Hp|Hp]; [rewrite Hp; exact HW|]. exfalso. cbn in HM. unfold b2n in HM. destruct (mlocked s), (dhold (dpc s)); lia.
  - rewrite Et. destruct (tpc s) as [ |dl|dl ntf| | | | | | | ] eqn:Etp; try exact I.
    + destruct HW as [HW|HW]; [left; lia|]. destruct Hq as [Eq | [[Hm _] | [Hm _]]].
      * rewrite Eq. right. exact HW.
      * exfalso. cbn in HM. rewrite Hm in HM. unfold b2n in HM. destruct (dhold (dpc s)); lia.
      * exfalso. cbn in HM. rewrite Hm in HM. unfold b2n in HM. destruct (dhold (dpc s)); lia.
    + destruct ntf; [exact I|]. destruct HW as [HW|HW]; [left; lia|]. destruct Hq as [Eq | [[Hm [x [Eq Hh]]] | [Hm [i Eq]]]].
      * rewrite Eq. right. exact HW.
      * rewrite Eq. destruct (at_head x (q s)) eqn:Ea; [left; apply Hh; reflexivity | right; apply wcond_insert_nothead; assumption].
      * rewrite Eq. right. apply wcond_remove; assumption.
Qed.

Lemma mw_run : forall now0 specs sched,
  let s := fst (run step sched (init now0 specs, [])) in Inv s /\ MInv s /\ WInv s.
Proof.
  intros now0 specs sched.
  apply (run_invariant_state _ _ _ step (fun s => Inv s /\ MInv s /\ WInv s)).
  - intros s t s' ev [HI [HM HW]] Hs. split; [eapply step_inv; eauto|]. split; [eapply minv_step; eauto | eapply winv_step; eauto].
  - split; [apply init_inv|]. split; [|exact I].
    unfold MInv. cbn. assert (hsum (map init_op specs) = 0%nat) as ->; [|reflexivity].
    induction specs as [|a l IH]; [reflexivity|]. unfold hsum in *. cbn. rewrite IH. reflexivity.
Qed.

(* at most one thread is inside a critical section of mutex_, and then the mutex is locked *)
Theorem mutual_exclusion : forall now0 specs sched,
  let s := fst (run step sched (init now0 specs, [])) in
  (b2n (thold (tpc s)) + hsum (ops s) + b2n (dhold (dpc s)) = b2n (mlocked s))%nat.
Proof. intros. apply (mw_run now0 specs sched). Qed.

(* no lost wake-up: while the timer thread is blocked in its wait and has not been notified, either a
   thread that just inserted a new head still holds the mutex and is about to call notify_one, or the
   timer thread's deadline is not later than the due time of the current head -- it never sleeps past
   the moment the head (in particular a cancelled, re-queued operation) becomes due *)
Theorem no_lost_wakeup : forall now0 specs sched dl,
  let s := fst (run step sched (init now0 specs, [])) in
  tpc s = TWaiting dl false ->
  (exists i o, nth_error (ops s) i = Some o /\ pend o = true) \/
  match q s with [] => True | x :: _ => exists d, dl = Some d /\ d <= due x end.
Proof.
  intros now0 specs sched dl s Et. destruct (mw_run now0 specs sched) as [_ [_ HW]]. fold s in HW.
  unfold WInv in HW. rewrite Et in HW. destruct HW as [HW|HW].
  - left. clear - HW. induction (ops s) as [|a os IH]; unfold pcount in *; cbn in HW; [lia|].
    destruct (pend a) eqn:E.
    + exists 0%nat, a. auto.
    + cbn in HW. destruct (IH HW) as [i [o [H1 H2]]]. exists (S i), o. auto.
  - right. unfold wcond in HW. destruct (q s); [exact I|]. destruct dl as [d|]; [eauto | contradiction].
Qed.
