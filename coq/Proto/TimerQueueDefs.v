(* E1 model TimerQueue: timed_single_thread_context with a virtual clock.
   include/unifex/timed_single_thread_context.hpp  (task_base, _after_op/_at_op::start, execute_impl)
   source/timed_single_thread_context.cpp          (enqueue, run, cancel_callback::operator(), dtor)
   plus, at lock granularity, the part of inplace_stop_source that the operation touches
   (source/inplace_stop_token.cpp: try_add_callback, request_stop, remove_callback).

   n operations; operation i has its own stop source.  Thread ids (n = number of operations):
     0            the context's timer thread (run)
     1 .. n       the thread that starts operation i-1
     n+1 .. 2n    the thread that calls request_stop on operation (t-n-1)'s stop source
     2n+1         the thread that destroys the context (allowed once every operation completed)
     2n+2         a spurious wake-up of the condition variable (std::condition_variable permits it)
     2n+3+k       the clock advances by k+1 units
   Every step is one mutex / condvar / stop-source-word access or one observable action, followed by
   the thread-private computation up to the next such access (under the mutex the whole critical
   section is private, so it is folded into the step that acquires the mutex).  The queue is the
   list of SortedInsertDefs.timer = (due, id) from head_ following next_; prevNextPtr_ <> nullptr
   iff the operation's id occurs in the queue.
   Executable definitions only. *)
From Coq Require Import ZArith List Bool Arith.
From V Require Import Arith.SortedInsertDefs.
Import ListNotations.
Local Open Scope Z_scope.

Module TimerQueue.

(* starter: _after_op::start / _at_op::start  (hpp 343-355) *)
Inductive spc_t :=
| SInit        (* not started *)
| SReg         (* dueTime_ computed; about to register the cancel callback: try_add_callback *)
| SRegRel      (* callback linked, holding the source's lock bit: about to unlock(0) *)
| SCb          (* stop was already requested: running the cancel callback inline *)
| SEnqLock     (* about to lock the mutex in enqueue *)
| SEnqNotify   (* inserted at the head: about to cv_.notify_one() *)
| SEnqUnlock   (* about to unlock the mutex *)
| SDone.

(* stopper: inplace_stop_source::request_stop (inplace_stop_token.cpp 39-76) *)
Inductive kpc_t :=
| KInit | KRel1 (* popped the callback, about to store(stop_requested) *) | KCb (* executing it *)
| KCompleted (* about to callbackCompleted_.store(true) *) | KRelock | KRelFinal | KDone.

(* cancel_callback::operator() (cpp 106-129), run by the starter (inline) or by the stopper *)
Inductive cpc_t :=
| CIdle | CLock | CUnlockRequeue (* unlinked; about to unlock, then re-enqueue *)
| CEnqLock | CEnqNotify | CEnqUnlock
| CUnlockDone (* nothing to requeue: about to unlock *) | CFin.

(* registration state of the operation's stop callback *)
Inductive cb_t :=
| CbNone | CbLinked | CbRunning (* popped by request_stop, executing *) | CbCompleted
| CbInline (* ran inline at registration: source_ = nullptr, the destructor does nothing *)
| CbGone.

(* timer thread: run() (cpp 67-104) and execute_impl (hpp 98-110) *)
Inductive tpc_t :=
| TAcq                                   (* about to lock the mutex: entry of run, or lock.lock() after execute *)
| TWaitGo (dl : option Z)                (* holding the mutex, about to cv_.wait / cv_.wait_until dl *)
| TWaiting (dl : option Z) (ntf : bool)  (* blocked in the wait; ntf: notified *)
| TUnlockExec (i : nat)                  (* popped i, about to lock.unlock() *)
| TDeregLock (i : nat)                   (* cancelCallback_.destruct(): remove_callback, about to lock the source *)
| TDeregRel (i : nat) (wait : bool)      (* about to unlock the source; wait: the callback was not linked any more *)
| TWaitCompleted (i : nat)               (* spinning on callbackCompleted_ *)
| TObsStop (i : nat)                     (* about to read stop_requested() and complete the receiver *)
| TExitUnlock                            (* stop_ seen: about to release the mutex and return *)
| TFin.

(* ~timed_single_thread_context (cpp 24-33) *)
Inductive dpc_t := DInit | DNotify | DUnlock | DJoin | DDone.

Record op := mkop {
  o_after : bool;        (* schedule_after (true) or schedule_at *)
  o_t : Z;               (* the duration resp. the time point *)
  orig : option Z;       (* ghost: the due time computed by start *)
  dueT : Z;              (* dueTime_ *)
  eseq : nat;            (* ghost: sequence number of the last enqueue of this operation *)
  spc : spc_t; kpc : kpc_t; cpc : cpc_t;
  sreq : bool;           (* stop source: stop_requested_flag *)
  slock : bool;          (* stop source: locked_flag *)
  cb : cb_t;
  ncomp : nat            (* ghost: number of completions of the receiver *)
}.

Record st := mkst {
  now : Z;               (* the virtual clock *)
  q : list timer;        (* head_ ... following next_ *)
  mlocked : bool;        (* mutex_ *)
  stopflag : bool;       (* stop_ *)
  tpc : tpc_t; dpc : dpc_t;
  nenq : nat;            (* ghost: number of enqueues so far *)
  ops : list op
}.

Inductive ev :=
| EStart (i : nat)                                 (* the operation is started *)
| ESrcCas (i : nat) (strong : bool) (old new : Z)  (* successful CAS on the source's state_: acq_rel (try_lock_unless_stop_requested) or acquire (lock) *)
| ESrcSt (i : nat) (v : Z)                         (* state_.store(v, release) *)
| ESrcObs (i : nat) (v : Z)                        (* relaxed load that sees the stop bit: try_lock_unless_stop_requested fails *)
| ESrcLd (i : nat) (v : Z)                         (* stop_requested(): load acquire *)
| ECbDone (i : nat)                                (* callbackCompleted_.store(true, release) *)
| ECbSeen (i : nat)                                (* callbackCompleted_.load(acquire) = true *)
| EML | EMU | ECW | ECN                            (* mutex lock / unlock, condvar wait / notify_one *)
| EFire (i : nat) (t : Z)                          (* set_value at clock t *)
| EDone (i : nat) (t : Z)                          (* set_done at clock t *)
| EClock (t : Z)                                   (* the clock now reads t *)
| EJoin.

(* ---- updates ---------------------------------------------------------------------------------- *)
Definition set_due (o : op) (d : Z) : op :=
  mkop (o_after o) (o_t o) (orig o) d (eseq o) (spc o) (kpc o) (cpc o) (sreq o) (slock o) (cb o) (ncomp o).
Definition set_orig (o : op) (d : option Z) : op :=
  mkop (o_after o) (o_t o) d (dueT o) (eseq o) (spc o) (kpc o) (cpc o) (sreq o) (slock o) (cb o) (ncomp o).
Definition set_eseq (o : op) (k : nat) : op :=
  mkop (o_after o) (o_t o) (orig o) (dueT o) k (spc o) (kpc o) (cpc o) (sreq o) (slock o) (cb o) (ncomp o).
Definition set_spc (o : op) (p : spc_t) : op :=
  mkop (o_after o) (o_t o) (orig o) (dueT o) (eseq o) p (kpc o) (cpc o) (sreq o) (slock o) (cb o) (ncomp o).
Definition set_kpc (o : op) (p : kpc_t) : op :=
  mkop (o_after o) (o_t o) (orig o) (dueT o) (eseq o) (spc o) p (cpc o) (sreq o) (slock o) (cb o) (ncomp o).
Definition set_cpc (o : op) (p : cpc_t) : op :=
  mkop (o_after o) (o_t o) (orig o) (dueT o) (eseq o) (spc o) (kpc o) p (sreq o) (slock o) (cb o) (ncomp o).
Definition set_sreq (o : op) (b : bool) : op :=
  mkop (o_after o) (o_t o) (orig o) (dueT o) (eseq o) (spc o) (kpc o) (cpc o) b (slock o) (cb o) (ncomp o).
Definition set_slock (o : op) (b : bool) : op :=
  mkop (o_after o) (o_t o) (orig o) (dueT o) (eseq o) (spc o) (kpc o) (cpc o) (sreq o) b (cb o) (ncomp o).
Definition set_cb (o : op) (c : cb_t) : op :=
  mkop (o_after o) (o_t o) (orig o) (dueT o) (eseq o) (spc o) (kpc o) (cpc o) (sreq o) (slock o) c (ncomp o).
Definition set_ncomp (o : op) (k : nat) : op :=
  mkop (o_after o) (o_t o) (orig o) (dueT o) (eseq o) (spc o) (kpc o) (cpc o) (sreq o) (slock o) (cb o) k.

Fixpoint set_nth {A} (n : nat) (x : A) (l : list A) : list A :=
  match l, n with
  | [], _ => []
  | _ :: r, O => x :: r
  | y :: r, S n' => y :: set_nth n' x r
  end.

Definition put (s : st) (i : nat) (o : op) : st :=
  mkst (now s) (q s) (mlocked s) (stopflag s) (tpc s) (dpc s) (nenq s) (set_nth i o (ops s)).
Definition set_now (s : st) (t : Z) : st :=
  mkst t (q s) (mlocked s) (stopflag s) (tpc s) (dpc s) (nenq s) (ops s).
Definition set_q (s : st) (l : list timer) : st :=
  mkst (now s) l (mlocked s) (stopflag s) (tpc s) (dpc s) (nenq s) (ops s).
Definition set_m (s : st) (b : bool) : st :=
  mkst (now s) (q s) b (stopflag s) (tpc s) (dpc s) (nenq s) (ops s).
Definition set_stop (s : st) (b : bool) : st :=
  mkst (now s) (q s) (mlocked s) b (tpc s) (dpc s) (nenq s) (ops s).
Definition set_tpc (s : st) (p : tpc_t) : st :=
  mkst (now s) (q s) (mlocked s) (stopflag s) p (dpc s) (nenq s) (ops s).
Definition set_dpc (s : st) (p : dpc_t) : st :=
  mkst (now s) (q s) (mlocked s) (stopflag s) (tpc s) p (nenq s) (ops s).
Definition set_nenq (s : st) (k : nat) : st :=
  mkst (now s) (q s) (mlocked s) (stopflag s) (tpc s) (dpc s) k (ops s).

(* ---- helpers ---------------------------------------------------------------------------------- *)
Definition sreqbyte (o : op) : Z := if sreq o then 1 else 0.
Definition sbyte (o : op) : Z := sreqbyte o + (if slock o then 2 else 0).

(* prevNextPtr_ != nullptr *)
Definition linkedb (i : nat) (l : list timer) : bool := existsb (fun x => Nat.eqb (id x) i) l.

(* enqueue's test "head_ == nullptr || task->dueTime_ < head_->dueTime_" (then it notifies) *)
Definition at_head (x : timer) (l : list timer) : bool :=
  match l with [] => true | h :: _ => due x <? due h end.

(* cv_.notify_one(): only a thread blocked in the wait is affected *)
Definition notify (p : tpc_t) : tpc_t :=
  match p with TWaiting dl _ => TWaiting dl true | _ => p end.

(* the insertion part of enqueue, done holding the mutex (cpp 35-65) *)
Definition do_insert (s : st) (i : nat) (o : op) : st :=
  set_nenq (set_q s (insert_timed (dueT o, i) (q s))) (S (nenq s)).

(* loop head of run(), evaluated holding the mutex (cpp 70-101) *)
Definition decide (s : st) : st :=
  if stopflag s then set_tpc s TExitUnlock
  else match q s with
       | [] => set_tpc s (TWaitGo None)
       | x :: tl =>
           if due x <=? now s then set_tpc (set_q s tl) (TUnlockExec (id x))
           else set_tpc s (TWaitGo (Some (due x)))
       end.

(* ---- cancel_callback::operator() ------------------------------------------------------------- *)
(* [fin] is applied when the callback returns: it moves the runner's own pc on. *)
Definition step_cb (fin : op -> op) (i : nat) (o : op) (s : st) : option (st * list ev) :=
  match cpc o with
  | CLock =>                                          (* cpp 107: unique_lock lock{mutex_} *)
      if mlocked s then None
      else if now s <? dueT o then                    (* cpp 109 *)
        if linkedb i (q s) then                       (* cpp 112-120: unlink *)
          Some (set_m (set_q (put s i (set_cpc (set_due o (now s)) CUnlockRequeue)) (heap_remove i (q s))) true, [EML])
        else Some (set_m (put s i (set_cpc (set_due o (now s)) CUnlockDone)) true, [EML])
      else Some (set_m (put s i (set_cpc o CUnlockDone)) true, [EML])
  | CUnlockRequeue =>                                 (* cpp 121 lock.unlock(); 124 dueTime_ = now (same value) *)
      Some (set_m (put s i (set_cpc o CEnqLock)) false, [EMU])
  | CEnqLock =>                                       (* cpp 125 -> enqueue: lock_guard *)
      if mlocked s then None
      else let o' := set_cpc (set_eseq o (nenq s))
                       (if at_head (dueT o, i) (q s) then CEnqNotify else CEnqUnlock) in
           Some (set_m (put (do_insert s i o) i o') true, [EML])
  | CEnqNotify => Some (set_tpc (put s i (set_cpc o CEnqUnlock)) (notify (tpc s)), [ECN])
  | CEnqUnlock => Some (set_m (put s i (fin (set_cpc o CFin))) false, [EMU])
  | CUnlockDone => Some (set_m (put s i (fin (set_cpc o CFin))) false, [EMU])
  | CIdle | CFin => None
  end.

(* ---- starter --------------------------------------------------------------------------------- *)
Definition step_starter (i : nat) (s : st) : option (st * list ev) :=
  match nth_error (ops s) i with
  | None => None
  | Some o =>
    match spc o with
    | SInit =>                                        (* hpp 345: dueTime_ = now() + duration_ (or the given time point) *)
        let d := if o_after o then now s + o_t o else o_t o in
        Some (put s i (set_spc (set_orig (set_due o d) (Some d)) SReg), [EStart i])
    | SReg =>                                         (* hpp 346: cancelCallback_.construct -> try_add_callback *)
        if sreq o then Some (put s i (set_spc (set_cpc (set_cb o CbInline) CLock) SCb), [ESrcObs i (sbyte o)])
        else if slock o then None
        else Some (put s i (set_spc (set_cb (set_slock o true) CbLinked) SRegRel), [ESrcCas i true 0 2])
    | SRegRel => Some (put s i (set_spc (set_slock o false) SEnqLock), [ESrcSt i 0])
    | SCb => step_cb (fun o' => set_spc o' SEnqLock) i o s
    | SEnqLock =>                                     (* hpp 347: context_->enqueue(this) *)
        if mlocked s then None
        else let o' := set_spc (set_eseq o (nenq s))
                         (if at_head (dueT o, i) (q s) then SEnqNotify else SEnqUnlock) in
             Some (set_m (put (do_insert s i o) i o') true, [EML])
    | SEnqNotify => Some (set_tpc (put s i (set_spc o SEnqUnlock)) (notify (tpc s)), [ECN])
    | SEnqUnlock => Some (set_m (put s i (set_spc o SDone)) false, [EMU])
    | SDone => None
    end
  end.

(* ---- stopper --------------------------------------------------------------------------------- *)
Definition step_stopper (i : nat) (s : st) : option (st * list ev) :=
  match nth_error (ops s) i with
  | None => None
  | Some o =>
    match kpc o with
    | KInit =>                                        (* try_lock_unless_stop_requested(true) *)
        if sreq o then Some (put s i (set_kpc o KDone), [ESrcObs i (sbyte o)])
        else if slock o then None
        else match cb o with
             | CbLinked =>                            (* pops the callback under the lock *)
                 Some (put s i (set_kpc (set_cb (set_slock (set_sreq o true) true) CbRunning) KRel1), [ESrcCas i true 0 3])
             | _ => Some (put s i (set_kpc (set_slock (set_sreq o true) true) KRelFinal), [ESrcCas i true 0 3])
             end
    | KRel1 => Some (put s i (set_kpc (set_cpc (set_slock o false) CLock) KCb), [ESrcSt i 1])
    | KCb => step_cb (fun o' => set_kpc o' KCompleted) i o s
    | KCompleted => Some (put s i (set_kpc (set_cb o CbCompleted) KRelock), [ECbDone i])
    | KRelock => if slock o then None
                 else Some (put s i (set_kpc (set_slock o true) KRelFinal), [ESrcCas i false 1 3])
    | KRelFinal => Some (put s i (set_kpc (set_slock o false) KDone), [ESrcSt i 1])
    | KDone => None
    end
  end.

(* ---- timer thread ----------------------------------------------------------------------------- *)
Definition with_op (s : st) (i : nat) (f : op -> option (st * list ev)) : option (st * list ev) :=
  match nth_error (ops s) i with None => None | Some o => f o end.

Definition step_timer (s : st) : option (st * list ev) :=
  match tpc s with
  | TAcq => if mlocked s then None else Some (decide (set_m s true), [EML])
  | TWaitGo dl => Some (set_m (set_tpc s (TWaiting dl false)) false, [ECW; EMU])
  | TWaiting dl ntf =>
      if mlocked s then None
      else if ntf || (match dl with Some d => d <=? now s | None => false end)
      then Some (decide (set_m s true), [EML]) else None
  | TUnlockExec i => with_op s i (fun o =>
      Some (set_m (set_tpc s (match cb o with CbInline => TObsStop i | _ => TDeregLock i end)) false, [EMU]))
  | TDeregLock i => with_op s i (fun o =>                 (* remove_callback: lock() *)
      if slock o then None
      else match cb o with
           | CbLinked => Some (set_tpc (put s i (set_cb (set_slock o true) CbGone)) (TDeregRel i false),
                               [ESrcCas i false (sbyte o) (sbyte o + 2)])
           | _ => Some (set_tpc (put s i (set_slock o true)) (TDeregRel i true),
                        [ESrcCas i false (sbyte o) (sbyte o + 2)])
           end)
  | TDeregRel i w => with_op s i (fun o =>
      Some (set_tpc (put s i (set_slock o false)) (if w then TWaitCompleted i else TObsStop i), [ESrcSt i (sreqbyte o)]))
  | TWaitCompleted i => with_op s i (fun o =>
      match cb o with
      | CbCompleted => Some (set_tpc (put s i (set_cb o CbGone)) (TObsStop i), [ECbSeen i])
      | _ => None
      end)
  | TObsStop i => with_op s i (fun o =>                   (* hpp 104-108 *)
      Some (set_tpc (put s i (set_ncomp o (S (ncomp o)))) TAcq,
            [ESrcLd i (sbyte o); if sreq o then EDone i (now s) else EFire i (now s)]))
  | TExitUnlock => Some (set_m (set_tpc s TFin) false, [EMU])
  | TFin => None
  end.

(* ---- destructor, spurious wake-up, clock -------------------------------------------------------- *)
Definition all_completed (s : st) : bool := forallb (fun o => Nat.eqb (ncomp o) 1) (ops s).

Definition step_destroyer (s : st) : option (st * list ev) :=
  match dpc s with
  | DInit => if mlocked s then None
             else if all_completed s then Some (set_dpc (set_stop (set_m s true) true) DNotify, [EML]) else None
  | DNotify => Some (set_dpc (set_tpc s (notify (tpc s))) DUnlock, [ECN])
  | DUnlock => Some (set_dpc (set_m s false) DJoin, [EMU])
  | DJoin => match tpc s with TFin => Some (set_dpc s DDone, [EJoin]) | _ => None end
  | DDone => None
  end.

Definition step_poke (s : st) : option (st * list ev) :=
  Some (set_tpc s (notify (tpc s)), [ECN]).

Definition step_clock (k : nat) (s : st) : option (st * list ev) :=
  let t := now s + Z.of_nat (S k) in Some (set_now s t, [EClock t]).

Definition nops (s : st) : nat := length (ops s).

Definition step (t : nat) (s : st) : option (st * list ev) :=
  let n := nops s in
  if Nat.eqb t 0 then step_timer s
  else if Nat.leb t n then step_starter (t - 1) s
  else if Nat.leb t (2 * n) then step_stopper (t - 1 - n) s
  else if Nat.eqb t (2 * n + 1) then step_destroyer s
  else if Nat.eqb t (2 * n + 2) then step_poke s
  else step_clock (t - (2 * n + 3)) s.

Definition init_op (spec : bool * Z) : op :=
  mkop (fst spec) (snd spec) None 0 0 SInit KInit CIdle false false CbNone 0.

Definition init (now0 : Z) (specs : list (bool * Z)) : st :=
  mkst now0 [] false false TAcq DInit 0 (map init_op specs).

(* ---- observations used by the theorems and by the handler's summary ------------------------------ *)
Definition started (o : op) : bool := match spc o with SInit => false | _ => true end.

Definition starter_idle (o : op) : bool := match spc o with SInit | SDone => true | _ => false end.
Definition stopper_idle (o : op) : bool := match kpc o with KInit | KDone => true | _ => false end.
Definition callback_idle (o : op) : bool := match cpc o with CIdle | CFin => true | _ => false end.
Definition timer_idle (p : tpc_t) : bool := match p with TWaiting _ _ | TFin => true | _ => false end.
(* nobody is in the middle of an operation *)
Definition quiescent (s : st) : bool :=
  timer_idle (tpc s) && forallb (fun o => starter_idle o && stopper_idle o && callback_idle o) (ops s).

Definition completions (s : st) : list nat := map ncomp (ops s).
Definition queue_ids (s : st) : list nat := map id (q s).

End TimerQueue.
