(* E1 model FutureState: the state machine shared by a spawned operation and its future
   (include/unifex/spawn_future.hpp: _spawn_future_op_base::{complete, negotiate_deletion,
   abandon, drop}, the deleter_ of _spawn_future_op_impl, the receiver's set_value with its
   catch path, and the continuation of _future_sender_from_stop_token that consumes the result),
   together with the little of the awaiting receiver's stop source that decides when the stop
   callback calling abandon can run (source/inplace_stop_token.cpp at lock granularity).

   Threads: 0 = Op   the spawned operation completing with value / error / done; for value the
                     fault flag says "the copy of the value into values_ throws";
            1 = Fut  the future: dropped at once (PDrop); connected + started + consumed (PAwait,
                     PStop: the continuation is rescheduled onto this thread, it is enabled once
                     posted); or connected and destroyed without being started (PConnDrop);
            2 = Stop requests stop on the awaiting receiver's stop source (PStop, PConnDrop).
   Parameter p_fixed selects the code as written (false) or with the three repairs (true):
     drop re-reads state_ after evt_.ready (finding 7); the continuation of the future destroys
     the stop callback before it looks at state_ / deletes the shared state (finding 13); drop
     negotiates the deletion when it finds abandoned / complete instead of calling
     std::terminate (finding 14: the stop callback is registered by connect, not by start).
   Ghost state: which union member is constructed, on which members a destructor ran, deleted,
   freed (checked by every step that touches the shared state: uaf), who won the race from init.
   Line numbers refer to spawn_future.hpp as written.  The scope is a v2::async_scope (its
   counter belongs to C08 and is not modelled).  Not this model: the v1 scope, whose attach
   sender answers a stop request by completing the spawned operation with done inside
   request_stop, so that complete runs nested in drop on thread Fut (monitored only).
   Executable definitions only. *)
From Coq Require Import List Bool Arith.
Import ListNotations.

Module Future.

Inductive outcome := OVal | OErr | ODone.
Inductive prog := PDrop | PAwait | PStop | PConnDrop.
(* values of state_ ; FPoison is what freed (poisoned) memory reads as *)
Inductive fstate := FInit | FAband | FValue | FError | FDoneS | FComplete | FPoison.
(* values of evt_.state_ : null, the waiting operation of the future, signalled, poisoned *)
Inductive evst := EvNull | EvWaiter | EvSig | EvPoison.
Inductive member := MVal | MErr.
Inductive result := RVal | RErr | RDone.

Record params := { p_fixed : bool; p_out : outcome; p_fault : bool; p_prog : prog }.

(* the shared state and the stop source of the awaiting receiver *)
Record mem := {
  state : fstate;            (* _spawn_future_op_base::state_ *)
  evt : evst;                (* _spawn_future_op_base::evt_ *)
  ext_locked : bool;         (* lock bit of the awaiting receiver's stop source *)
  ext_stop : bool;           (* its stop-requested bit *)
  cb_linked : bool;          (* the abandon callback is in that source's list *)
  cb_reg : bool;             (* the callback was registered (not run inline): its destructor deregisters *)
  cb_done : bool;            (* callbackCompleted_ of the abandon callback *)
  posted : bool              (* the continuation of the future was posted to thread Fut's scheduler *)
}.

Record ghost := {
  freed : bool;                      (* the shared state was deallocated *)
  deleted : nat;                     (* number of times deleter_ ran *)
  uaf : bool;                        (* some step touched the shared state after it was freed *)
  constructed : option member;       (* the union member that was constructed *)
  destroyed : list member;           (* members on which a destructor ran, newest first *)
  src_stop : bool;                   (* stop requested on the spawned operation (stopSource_) *)
  ab_won : bool;                     (* abandon moved init -> abandoned *)
  op_won : bool;                     (* complete moved init -> value / error / done *)
  drop_init : bool;                  (* drop read init *)
  roots : list result;               (* completions of the awaiting receiver, newest first *)
  bad : bool                         (* a branch guarded by UNIFEX_ASSERT / std::terminate was taken *)
}.

(* abandon, spawn_future.hpp:143-182; run by Stop (stop callback) or inline by Fut *)
Inductive apc := ACas | ASrcSet | ASrcEnd | AEvt.

Inductive opc :=
| OCas            (* complete: CAS init -> desired, :195 *)
| OFault          (* the value copy threw: state_.store error, :502 *)
| OSet            (* destruct_op ; evt_.set, :223-227 *)
| ONeg            (* negotiate_deletion: CAS abandoned -> complete, :254 *)
| OFin.

Inductive fpc :=
| DLoad                       (* drop: state_.load, :279 *)
| DSrcSet | DSrcEnd           (* stopSource_.request_stop, :289 *)
| DCas                        (* CAS init -> complete, :294 *)
| DReady (seen : fstate)      (* spin on evt_.ready, :326 ; then deleter_ seen, :330 *)
| DReload                     (* fixed only: re-read state_ , then deleter_ *)
| DNeg                        (* fixed only: drop found abandoned: CAS abandoned -> complete *)
| DDelC                       (* fixed only: drop found complete: load-acquire, then deleter_ *)
| WReg                        (* connect: the stop callback registers, spawn_future.hpp:674-683 *)
| WRegRel
| WAb (a : apc)               (* stop already requested: abandon runs inline *)
| WWaitLoad | WWaitCas        (* start: evt_.async_wait, async_manual_reset_event_v1.cpp start_or_wait *)
| WCont                       (* waiting for the rescheduled continuation, :722 *)
| WLoad                       (* state_.load, :732, then (unless abandoned) produce the result and deleter_ *)
| WCas                        (* CAS abandoned -> complete, :741 *)
| WDeregAcq (r : result)      (* the stop callback is destroyed: remove_callback lock *)
| WDeregRel (r : result) (linked : bool)
| WDeregWait (r : result)     (* executing on thread Stop: wait for callbackCompleted_ *)
| FFin.

Inductive spc :=
| SIdle                       (* request_stop: try_lock_unless_stop_requested *)
| SUnl (popped : bool)        (* unlock before running the callback / returning *)
| SAb (a : apc)
| SCbDone                     (* callbackCompleted_.store true *)
| SRelock | SRelRel
| SFin.

Record st := { cfg : params; m : mem; g : ghost; op : opc; fp : fpc; sp : spc }.

Inductive cassite := CsComplete | CsNegotiate | CsDrop | CsAbandon | CsConsume | CsDropNeg.

Inductive ev :=
| EStL (v : fstate)                                 (* state_.load relaxed *)
| EStLa (v : fstate)                                (* state_.load acquire *)
| EStS (v : fstate)                                 (* state_.store *)
| EStC (site : cassite) (old new : fstate) (ok : bool)
| EEvX (old : evst)                                 (* evt_.set: exchange to signalled *)
| EEvL (v : evst)                                   (* evt_ load-acquire: ready / start_or_wait *)
| EEvC (old : evst) (ok : bool)                     (* start_or_wait: push the waiter *)
| ESrcSet | ESrcEnd                                 (* stopSource_.request_stop: first and last access *)
| EExtObs (locked : bool)                           (* registration sees the stop bit *)
| EExtAcq (arel : bool) (old new : nat)             (* lock acquisition on the receiver's stop source *)
| EExtRel (v : nat)                                 (* its release *)
| ECbDone | ECbWait                                 (* callbackCompleted_ store / successful load *)
| EValCtor                                          (* values_ constructed *)
| EValDtor (ok : bool)                              (* destructor of values_ ; false: never constructed *)
| EThrow                                            (* the value copy throws *)
| EDealloc                                          (* the shared state is deallocated *)
| EPost                                             (* the continuation is posted to thread Fut *)
| ERoot (r : result)                                (* the awaiting receiver is completed *)
| ETerminate.

(* ---------------------------------------------------------------------------------------- *)
(* record updates                                                                           *)

Definition set_state (v : fstate) (x : mem) : mem :=
  {| state := v; evt := evt x; ext_locked := ext_locked x; ext_stop := ext_stop x; cb_linked := cb_linked x; cb_reg := cb_reg x; cb_done := cb_done x; posted := posted x |}.
Definition set_evt (v : evst) (x : mem) : mem :=
  {| state := state x; evt := v; ext_locked := ext_locked x; ext_stop := ext_stop x; cb_linked := cb_linked x; cb_reg := cb_reg x; cb_done := cb_done x; posted := posted x |}.
Definition set_ext_locked (v : bool) (x : mem) : mem :=
  {| state := state x; evt := evt x; ext_locked := v; ext_stop := ext_stop x; cb_linked := cb_linked x; cb_reg := cb_reg x; cb_done := cb_done x; posted := posted x |}.
Definition set_ext_stop (v : bool) (x : mem) : mem :=
  {| state := state x; evt := evt x; ext_locked := ext_locked x; ext_stop := v; cb_linked := cb_linked x; cb_reg := cb_reg x; cb_done := cb_done x; posted := posted x |}.
Definition set_cb_linked (v : bool) (x : mem) : mem :=
  {| state := state x; evt := evt x; ext_locked := ext_locked x; ext_stop := ext_stop x; cb_linked := v; cb_reg := cb_reg x; cb_done := cb_done x; posted := posted x |}.
Definition set_cb_reg (v : bool) (x : mem) : mem :=
  {| state := state x; evt := evt x; ext_locked := ext_locked x; ext_stop := ext_stop x; cb_linked := cb_linked x; cb_reg := v; cb_done := cb_done x; posted := posted x |}.
Definition set_cb_done (v : bool) (x : mem) : mem :=
  {| state := state x; evt := evt x; ext_locked := ext_locked x; ext_stop := ext_stop x; cb_linked := cb_linked x; cb_reg := cb_reg x; cb_done := v; posted := posted x |}.
Definition set_posted (v : bool) (x : mem) : mem :=
  {| state := state x; evt := evt x; ext_locked := ext_locked x; ext_stop := ext_stop x; cb_linked := cb_linked x; cb_reg := cb_reg x; cb_done := cb_done x; posted := v |}.
Definition set_freed (v : bool) (x : ghost) : ghost :=
  {| freed := v; deleted := deleted x; uaf := uaf x; constructed := constructed x; destroyed := destroyed x; src_stop := src_stop x; ab_won := ab_won x; op_won := op_won x; drop_init := drop_init x; roots := roots x; bad := bad x |}.
Definition set_deleted (v : nat) (x : ghost) : ghost :=
  {| freed := freed x; deleted := v; uaf := uaf x; constructed := constructed x; destroyed := destroyed x; src_stop := src_stop x; ab_won := ab_won x; op_won := op_won x; drop_init := drop_init x; roots := roots x; bad := bad x |}.
Definition set_uaf (v : bool) (x : ghost) : ghost :=
  {| freed := freed x; deleted := deleted x; uaf := v; constructed := constructed x; destroyed := destroyed x; src_stop := src_stop x; ab_won := ab_won x; op_won := op_won x; drop_init := drop_init x; roots := roots x; bad := bad x |}.
Definition set_constructed (v : option member) (x : ghost) : ghost :=
  {| freed := freed x; deleted := deleted x; uaf := uaf x; constructed := v; destroyed := destroyed x; src_stop := src_stop x; ab_won := ab_won x; op_won := op_won x; drop_init := drop_init x; roots := roots x; bad := bad x |}.
Definition set_destroyed (v : list member) (x : ghost) : ghost :=
  {| freed := freed x; deleted := deleted x; uaf := uaf x; constructed := constructed x; destroyed := v; src_stop := src_stop x; ab_won := ab_won x; op_won := op_won x; drop_init := drop_init x; roots := roots x; bad := bad x |}.
Definition set_src_stop (v : bool) (x : ghost) : ghost :=
  {| freed := freed x; deleted := deleted x; uaf := uaf x; constructed := constructed x; destroyed := destroyed x; src_stop := v; ab_won := ab_won x; op_won := op_won x; drop_init := drop_init x; roots := roots x; bad := bad x |}.
Definition set_ab_won (v : bool) (x : ghost) : ghost :=
  {| freed := freed x; deleted := deleted x; uaf := uaf x; constructed := constructed x; destroyed := destroyed x; src_stop := src_stop x; ab_won := v; op_won := op_won x; drop_init := drop_init x; roots := roots x; bad := bad x |}.
Definition set_op_won (v : bool) (x : ghost) : ghost :=
  {| freed := freed x; deleted := deleted x; uaf := uaf x; constructed := constructed x; destroyed := destroyed x; src_stop := src_stop x; ab_won := ab_won x; op_won := v; drop_init := drop_init x; roots := roots x; bad := bad x |}.
Definition set_drop_init (v : bool) (x : ghost) : ghost :=
  {| freed := freed x; deleted := deleted x; uaf := uaf x; constructed := constructed x; destroyed := destroyed x; src_stop := src_stop x; ab_won := ab_won x; op_won := op_won x; drop_init := v; roots := roots x; bad := bad x |}.
Definition set_roots (v : list result) (x : ghost) : ghost :=
  {| freed := freed x; deleted := deleted x; uaf := uaf x; constructed := constructed x; destroyed := destroyed x; src_stop := src_stop x; ab_won := ab_won x; op_won := op_won x; drop_init := drop_init x; roots := v; bad := bad x |}.
Definition set_bad (v : bool) (x : ghost) : ghost :=
  {| freed := freed x; deleted := deleted x; uaf := uaf x; constructed := constructed x; destroyed := destroyed x; src_stop := src_stop x; ab_won := ab_won x; op_won := op_won x; drop_init := drop_init x; roots := roots x; bad := v |}.

Definition M (f : mem -> mem) (s : st) : st :=
  {| cfg := cfg s; m := f (m s); g := g s; op := op s; fp := fp s; sp := sp s |}.
Definition Gh (f : ghost -> ghost) (s : st) : st :=
  {| cfg := cfg s; m := m s; g := f (g s); op := op s; fp := fp s; sp := sp s |}.
Definition set_op (v : opc) (s : st) : st :=
  {| cfg := cfg s; m := m s; g := g s; op := v; fp := fp s; sp := sp s |}.
Definition set_fp (v : fpc) (s : st) : st :=
  {| cfg := cfg s; m := m s; g := g s; op := op s; fp := v; sp := sp s |}.
Definition set_sp (v : spc) (s : st) : st :=
  {| cfg := cfg s; m := m s; g := g s; op := op s; fp := fp s; sp := v |}.

(* ---------------------------------------------------------------------------------------- *)

Definition init (p : params) : st :=
  {| cfg := p;
     m := {| state := FInit; evt := EvNull; ext_locked := false; ext_stop := false;
             cb_linked := false; cb_reg := false; cb_done := false; posted := false |};
     g := {| freed := false; deleted := 0; uaf := false; constructed := None; destroyed := [];
             src_stop := false; ab_won := false; op_won := false; drop_init := false;
             roots := []; bad := false |};
     op := OCas;
     fp := match p_prog p with PDrop => DLoad | _ => WReg end;
     sp := match p_prog p with PStop | PConnDrop => SIdle | _ => SFin end |}.

Definition desired (o : outcome) : fstate :=
  match o with OVal => FValue | OErr => FError | ODone => FDoneS end.

(* what the future must deliver when nobody cancels *)
Definition expected (p : params) : result :=
  match p_out p with
  | OVal => if p_fault p then RErr else RVal
  | OErr => RErr
  | ODone => RDone
  end.

(* every access to the shared state goes through touch: after the deallocation it is a
   use-after-free *)
Definition touch (s : st) : st := if freed (g s) then Gh (set_uaf true) s else s.

Definition flag_bad (s : st) : st := Gh (set_bad true) s.

Definition is_mval (o : option member) : bool := match o with Some MVal => true | _ => false end.

(* deleter_ arg, spawn_future.hpp:634-655: destroy the member named by arg (not by state_),
   destroy + deallocate the shared state (poisoned afterwards) *)
Definition do_delete (arg : fstate) (s : st) : st * list ev :=
  let s0 := touch s in
  let d := match arg with
           | FValue => ([MVal], [EValDtor (is_mval (constructed (g s0)))])
           | FError => ([MErr], [])
           | _ => ([], [])
           end in
  let s1 := Gh (fun x => set_freed true (set_deleted (S (deleted x))
                           (set_destroyed (fst d ++ destroyed x) x))) s0 in
  (M (fun x => set_state FPoison (set_evt EvPoison x)) s1, snd d ++ [EDealloc]).

(* evt_.set, async_manual_reset_event_v1.cpp: exchange to signalled, resume the waiter (its
   continuation is posted to thread Fut) *)
Definition evt_set (s : st) : st * list ev :=
  let s0 := touch s in
  let old := evt (m s0) in
  let s1 := M (set_evt EvSig) s0 in
  match old with
  | EvWaiter => (M (set_posted true) s1, [EEvX old; EPost])
  | _ => (s1, [EEvX old])
  end.

Definition completion_signal (v : fstate) : bool :=
  match v with FValue | FError | FDoneS => true | _ => false end.

(* one step of abandon; None = abandon returned *)
Definition abandon_step (a : apc) (s : st) : st * list ev * option apc :=
  match a with
  | ACas =>
      let s0 := touch s in
      match state (m s0) with
      | FInit => (Gh (set_ab_won true) (M (set_state FAband) s0),
                  [EStC CsAbandon FInit FAband true], Some ASrcSet)
      | v => let s1 := if completion_signal v || freed (g s0) then s0 else flag_bad s0 in
             (s1, [EStC CsAbandon v FAband false], None)
      end
  | ASrcSet => (Gh (set_src_stop true) (touch s), [ESrcSet], Some ASrcEnd)
  | ASrcEnd => (touch s, [ESrcEnd], Some AEvt)
  | AEvt => let (s1, evs) := evt_set s in (s1, evs, None)
  end.

(* ---------------------------------------------------------------------------------------- *)
(* thread Op                                                                                *)

Definition step_op (s : st) : option (st * list ev) :=
  match op s with
  | OCas =>
      let s0 := touch s in
      let d := desired (p_out (cfg s)) in
      match state (m s0) with
      | FInit =>
          let s1 := Gh (set_op_won true) (M (set_state d) s0) in
          let e := EStC CsComplete FInit d true in
          match p_out (cfg s) with
          | OVal =>
              if p_fault (cfg s) then Some (set_op OFault s1, [e; EThrow])
              else Some (set_op OSet (Gh (set_constructed (Some MVal)) s1), [e; EValCtor])
          | OErr => Some (set_op OSet (Gh (set_constructed (Some MErr)) s1), [e])
          | ODone => Some (set_op OSet s1, [e])
          end
      | FAband => Some (set_op ONeg s0, [EStC CsComplete FAband d false])
      | FComplete =>
          let (s1, evs) := do_delete FComplete s0 in
          Some (set_op OFin s1, EStC CsComplete FComplete d false :: evs)
      | v => Some (set_op OFin (flag_bad s0), [EStC CsComplete v d false])
      end
  | OFault =>
      let s0 := touch s in
      Some (set_op OSet (Gh (set_constructed (Some MErr)) (M (set_state FError) s0)), [EStS FError])
  | OSet =>
      let (s1, evs) := evt_set s in Some (set_op OFin s1, evs)
  | ONeg =>
      let s0 := touch s in
      match state (m s0) with
      | FAband => Some (set_op OFin (M (set_state FComplete) s0),
                        [EStC CsNegotiate FAband FComplete true])
      | FComplete =>
          let (s1, evs) := do_delete FComplete s0 in
          Some (set_op OFin s1, EStC CsNegotiate FComplete FComplete false :: evs)
      | v => Some (set_op OFin (flag_bad s0), [EStC CsNegotiate v FComplete false])
      end
  | OFin => None
  end.

(* ---------------------------------------------------------------------------------------- *)
(* thread Fut                                                                               *)

Definition stopbit (s : st) : nat := if ext_stop (m s) then 1 else 0.

Definition add_root (r : result) (s : st) : st := Gh (fun x => set_roots (r :: roots x) x) s.

(* the result was produced and the shared state deleted or handed to Op.  As written the
   stop callback is destroyed only now (nest_receiver::complete destroys the whole operation
   state of the future before completing the receiver); fixed: it is already gone *)
Definition finish (r : result) (s : st) (evs : list ev) : st * list ev :=
  if negb (p_fixed (cfg s)) && cb_reg (m s) then (set_fp (WDeregAcq r) s, evs)
  else (set_fp FFin (add_root r s), evs ++ [ERoot r]).

Definition is_conndrop (s : st) : bool := match p_prog (cfg s) with PConnDrop => true | _ => false end.

(* PConnDrop: the operation state of the future is destroyed without having been started: first
   the stop callback (let_value_with's state_), then the op_handle whose deleter calls drop *)
Definition after_dereg (r : result) (s : st) (evs : list ev) : st * list ev :=
  if is_conndrop s then (set_fp DLoad s, evs)
  else if p_fixed (cfg s) then (set_fp WLoad s, evs)
  else (set_fp FFin (add_root r s), evs ++ [ERoot r]).

(* where thread Fut goes once connect has returned *)
Definition after_connect (s : st) : fpc :=
  if is_conndrop s then (if cb_reg (m s) then WDeregAcq RDone else DLoad) else WWaitLoad.

Definition consume_load (s : st) : st * list ev :=
  let s0 := touch s in
  let v := state (m s0) in
  match v with
  | FAband => (set_fp WCas s0, [EStL v])
  | FValue => let (s1, evs) := do_delete v s0 in finish RVal s1 (EStL v :: evs)
  | FError => let (s1, evs) := do_delete v s0 in finish RErr s1 (EStL v :: evs)
  | FDoneS | FComplete => let (s1, evs) := do_delete v s0 in finish RDone s1 (EStL v :: evs)
  | _ => (set_fp FFin (flag_bad s0), [EStL v; ETerminate])
  end.

Definition dereg_acq (r : result) (s : st) : option (st * list ev) :=
  if ext_locked (m s) then None
  else
    let linked := cb_linked (m s) in
    Some (set_fp (WDeregRel r linked) (M (fun x => set_ext_locked true (set_cb_linked false x)) s),
          [EExtAcq false (stopbit s) (stopbit s + 2)]).

Definition step_fut (s : st) : option (st * list ev) :=
  match fp s with
  | DLoad =>
      let s0 := touch s in
      let v := state (m s0) in
      match v with
      | FInit => Some (set_fp DSrcSet (Gh (set_drop_init true) s0), [EStL v])
      | FValue | FError | FDoneS => Some (set_fp (DReady v) s0, [EStL v])
      | FAband =>
          if p_fixed (cfg s) then Some (set_fp DNeg s0, [EStL v])
          else Some (set_fp FFin (flag_bad s0), [EStL v; ETerminate])
      | FComplete =>
          if p_fixed (cfg s) then Some (set_fp DDelC s0, [EStL v])
          else Some (set_fp FFin (flag_bad s0), [EStL v; ETerminate])
      | _ => Some (set_fp FFin (flag_bad s0), [EStL v; ETerminate])
      end
  | DSrcSet => Some (set_fp DSrcEnd (Gh (set_src_stop true) (touch s)), [ESrcSet])
  | DSrcEnd => Some (set_fp DCas (touch s), [ESrcEnd])
  | DCas =>
      let s0 := touch s in
      match state (m s0) with
      | FInit => Some (set_fp FFin (M (set_state FComplete) s0), [EStC CsDrop FInit FComplete true])
      | v => let s1 := if completion_signal v then s0 else flag_bad s0 in
             Some (set_fp (DReady v) s1, [EStC CsDrop v FComplete false])
      end
  | DReady seen =>
      match evt (m s) with
      | EvSig =>
          let s0 := touch s in
          if p_fixed (cfg s) then Some (set_fp DReload s0, [EEvL EvSig])
          else let (s1, evs) := do_delete seen s0 in Some (set_fp FFin s1, EEvL EvSig :: evs)
      | _ => None
      end
  | DReload =>
      let s0 := touch s in
      let v := state (m s0) in
      let (s1, evs) := do_delete v s0 in Some (set_fp FFin s1, EStL v :: evs)
  | DNeg =>
      let s0 := touch s in
      match state (m s0) with
      | FAband => Some (set_fp FFin (M (set_state FComplete) s0), [EStC CsDropNeg FAband FComplete true])
      | FComplete =>
          let (s1, evs) := do_delete FComplete s0 in
          Some (set_fp FFin s1, EStC CsDropNeg FComplete FComplete false :: evs)
      | v => Some (set_fp FFin (flag_bad s0), [EStC CsDropNeg v FComplete false; ETerminate])
      end
  | DDelC =>
      let s0 := touch s in
      let v := state (m s0) in
      let (s1, evs) := do_delete v s0 in Some (set_fp FFin s1, EStLa v :: evs)
  | WReg =>
      if ext_stop (m s) then Some (set_fp (WAb ACas) s, [EExtObs (ext_locked (m s))])
      else if ext_locked (m s) then None
      else Some (set_fp WRegRel (M (fun x => set_ext_locked true (set_cb_linked true (set_cb_reg true x))) s),
                 [EExtAcq true 0 2])
  | WRegRel => Some (set_fp (after_connect s) (M (set_ext_locked false) s), [EExtRel 0])
  | WAb a =>
      match abandon_step a s with
      | (s1, evs, Some a') => Some (set_fp (WAb a') s1, evs)
      | (s1, evs, None) => Some (set_fp (after_connect s1) s1, evs)
      end
  | WWaitLoad =>
      let s0 := touch s in
      match evt (m s0) with
      | EvSig => Some (set_fp WCont (M (set_posted true) s0), [EEvL EvSig; EPost])
      | EvNull => Some (set_fp WWaitCas s0, [EEvL EvNull])
      | v => Some (set_fp FFin (flag_bad s0), [EEvL v; ETerminate])
      end
  | WWaitCas =>
      let s0 := touch s in
      match evt (m s0) with
      | EvNull => Some (set_fp WCont (M (set_evt EvWaiter) s0), [EEvC EvNull true])
      | EvSig => Some (set_fp WCont (M (set_posted true) s0), [EEvC EvSig false; EPost])
      | v => Some (set_fp FFin (flag_bad s0), [EEvC v false; ETerminate])
      end
  | WCont =>
      if posted (m s) then
        if p_fixed (cfg s) && cb_reg (m s) then dereg_acq RDone s
        else Some (consume_load s)
      else None
  | WLoad => Some (consume_load s)
  | WCas =>
      let s0 := touch s in
      match state (m s0) with
      | FAband => Some (finish RDone (M (set_state FComplete) s0) [EStC CsConsume FAband FComplete true])
      | FComplete =>
          let (s1, evs) := do_delete FComplete s0 in
          Some (finish RDone s1 (EStC CsConsume FComplete FComplete false :: evs))
      | v => Some (set_fp FFin (flag_bad s0), [EStC CsConsume v FComplete false; ETerminate])
      end
  | WDeregAcq r => dereg_acq r s
  | WDeregRel r linked =>
      let s0 := M (set_ext_locked false) s in
      if linked then Some (after_dereg r s0 [EExtRel (stopbit s)])
      else Some (set_fp (WDeregWait r) s0, [EExtRel (stopbit s)])
  | WDeregWait r =>
      if cb_done (m s) then Some (after_dereg r s [ECbWait]) else None
  | FFin => None
  end.

(* ---------------------------------------------------------------------------------------- *)
(* thread Stop: inplace_stop_source::request_stop on the awaiting receiver's source          *)

Definition step_stop (s : st) : option (st * list ev) :=
  match sp s with
  | SIdle =>
      if ext_locked (m s) then None
      else
        let popped := cb_linked (m s) in
        Some (set_sp (SUnl popped)
                (M (fun x => set_ext_locked true (set_ext_stop true (set_cb_linked false x))) s),
              [EExtAcq true 0 3])
  | SUnl popped =>
      Some (set_sp (if popped then SAb ACas else SFin) (M (set_ext_locked false) s), [EExtRel 1])
  | SAb a =>
      match abandon_step a s with
      | (s1, evs, Some a') => Some (set_sp (SAb a') s1, evs)
      | (s1, evs, None) => Some (set_sp SCbDone s1, evs)
      end
  | SCbDone => Some (set_sp SRelock (M (set_cb_done true) s), [ECbDone])
  | SRelock =>
      if ext_locked (m s) then None
      else Some (set_sp SRelRel (M (set_ext_locked true) s), [EExtAcq false 1 3])
  | SRelRel => Some (set_sp SFin (M (set_ext_locked false) s), [EExtRel 1])
  | SFin => None
  end.

Definition step (t : nat) (s : st) : option (st * list ev) :=
  match t with
  | 0 => step_op s
  | 1 => step_fut s
  | 2 => step_stop s
  | _ => None
  end.

Definition op_fin (p : opc) : bool := match p with OFin => true | _ => false end.
Definition fut_fin (p : fpc) : bool := match p with FFin => true | _ => false end.
Definition stop_fin (p : spc) : bool := match p with SFin => true | _ => false end.
Definition quiescent (s : st) : bool := op_fin (op s) && fut_fin (fp s) && stop_fin (sp s).

End Future.

(* ------------------------------------------------------------------------------------------ *)
(* SpawnFault: the sequential start-up of spawn_detached (spawn_detached.hpp:146-194) and
   spawn_future (spawn_future.hpp _spawn_future_fn::operator()) with a fault point after each
   stage: the allocation, the nest() of the future (spawn_future only), the nest() of the
   spawned sender (the scope's nest or the sender's move into the nest sender throws) and its
   connect().  What is tracked: allocations / deallocations of the operation's heap block,
   references held on the scope, whether the exception left the spawn call, whether the
   operation was started.  late_guard = true is the (wrong) variant of spawn_detached whose
   deallocating scope_guard is armed only after nest() (seeded defect C09-seed2). *)
Module SpawnFault.

Inductive fn := Detached | Future.
Inductive stage := SAlloc | SNestFut | SNestOp | SConnect.

Record st := {
  allocs : nat; deallocs : nat;
  refs : nat;              (* scope references currently held *)
  threw : bool;            (* an exception left the spawn call *)
  started : nat;           (* operations started *)
  completed : nat
}.

Definition st0 : st :=
  {| allocs := 0; deallocs := 0; refs := 0; threw := false; started := 0; completed := 0 |}.

Definition stage_eqb (a b : stage) : bool :=
  match a, b with
  | SAlloc, SAlloc | SNestFut, SNestFut | SNestOp, SNestOp | SConnect, SConnect => true
  | _, _ => false
  end.

Definition faults_at (f : option stage) (s : stage) : bool :=
  match f with Some x => stage_eqb x s | None => false end.

Definition alloc1 (s : st) : st :=
  {| allocs := S (allocs s); deallocs := deallocs s; refs := refs s; threw := threw s;
     started := started s; completed := completed s |}.
Definition dealloc1 (s : st) : st :=
  {| allocs := allocs s; deallocs := S (deallocs s); refs := refs s; threw := threw s;
     started := started s; completed := completed s |}.
Definition ref_up (s : st) : st :=
  {| allocs := allocs s; deallocs := deallocs s; refs := S (refs s); threw := threw s;
     started := started s; completed := completed s |}.
Definition ref_down (s : st) : st :=
  {| allocs := allocs s; deallocs := deallocs s; refs := pred (refs s); threw := threw s;
     started := started s; completed := completed s |}.
Definition throw (s : st) : st :=
  {| allocs := allocs s; deallocs := deallocs s; refs := refs s; threw := true;
     started := started s; completed := completed s |}.
Definition start_complete (s : st) : st :=
  {| allocs := allocs s; deallocs := deallocs s; refs := refs s; threw := threw s;
     started := S (started s); completed := S (completed s) |}.

(* spawn_detached: allocate ; [guard armed] ; nest ; [late guard armed] ; construct = connect ;
   guard released ; start ; the operation completes, releases its scope reference (nest
   receiver) and frees itself *)
Definition run_detached (late_guard : bool) (f : option stage) : st :=
  if faults_at f SAlloc then throw st0
  else
    let s1 := alloc1 st0 in
    if faults_at f SNestOp then
      (* unwinding: the guard deallocates, if it is armed already *)
      throw (if late_guard then s1 else dealloc1 s1)
    else
      let s2 := ref_up s1 in
      if faults_at f SConnect then
        (* the nest sender temporary is destroyed (reference released), the guard deallocates *)
        throw (dealloc1 (ref_down s2))
      else
        dealloc1 (ref_down (start_complete s2)).

(* spawn_future: allocate ; construct the operation block ; try { nest the future ; nest the
   sender ; connect ; start } catch { the future was destroyed during unwinding: drop moves init
   to complete and releases its reference ; deleter ; rethrow }.  The clean run ends with the
   operation completing and the future being dropped or awaited: both references released,
   one of the two sides deletes *)
Definition run_future (f : option stage) : st :=
  if faults_at f SAlloc then throw st0
  else
    let s1 := alloc1 st0 in
    if faults_at f SNestFut then throw (dealloc1 s1)
    else
      let s2 := ref_up s1 in
      if faults_at f SNestOp then throw (dealloc1 (ref_down s2))
      else
        let s3 := ref_up s2 in
        if faults_at f SConnect then throw (dealloc1 (ref_down (ref_down s3)))
        else dealloc1 (ref_down (ref_down (start_complete s3))).

Definition run (late_guard : bool) (g : fn) (f : option stage) : st :=
  match g with Detached => run_detached late_guard f | Future => run_future f end.

(* the fault points a spawn actually has *)
Definition has_stage (g : fn) (s : stage) : bool :=
  match g, s with Detached, SNestFut => false | _, _ => true end.

End SpawnFault.
