(* Proofs about the sequential model Tramp (Proto/TrampolineDefs.v): trampoline_scheduler.
   For every configured depth d, every program (tree of operations) and every number of machine
   steps: the nesting of execute() frames never exceeds recursionDepth_, which never exceeds
   max d 1; the machine terminates within 3 * size steps; when the outermost start() returns
   nothing is left deferred and every operation of the tree has been completed exactly once
   (with set_done exactly for the operations whose stop token was requested). *)
From Coq Require Import List Bool Arith Lia Permutation.
From V Require Import Proto.TrampolineDefs.
Import ListNotations.
Import Tramp.

(* ------------------------------------------------------------------------------------------ *)
(* trees: size and the multiset of operations                                                  *)

Definition sizes (l : list tree) : nat := list_sum (map size l).

Lemma size_node l b k : size (Node l b k) = S (sizes k).
Proof.
  unfold sizes. cbn. f_equal. induction k as [|x r IH]; cbn; [reflexivity|]. now rewrite IH.
Qed.

Lemma sizes_cons x r : sizes (x :: r) = size x + sizes r.
Proof. reflexivity. Qed.

(* (label, stop requested) of every operation of the tree, in preorder *)
Fixpoint nodes (t : tree) : list (nat * bool) :=
  match t with
  | Node l b k => (l, b) :: (fix go (ts : list tree) : list (nat * bool) :=
                               match ts with [] => [] | x :: r => nodes x ++ go r end) k
  end.

Lemma nodes_node l b k : nodes (Node l b k) = (l, b) :: flat_map nodes k.
Proof. reflexivity. Qed.

Lemma nodes_unfold t : nodes t = (label t, is_stopped t) :: flat_map nodes (kids t).
Proof. destruct t. apply nodes_node. Qed.

Lemma size_unfold t : size t = S (sizes (kids t)).
Proof. destruct t. apply size_node. Qed.

Definition key (e : entry) : nat * bool := (e_label e, e_done e).

(* ------------------------------------------------------------------------------------------ *)
(* nesting <= recursionDepth_ <= max d 1                                                        *)

Definition DInv (s : st) : Prop :=
  length (frames s) <= depth s /\ 1 <= depth s <= Nat.max (maxd s) 1 /\
  forall e, In e (log s) -> 1 <= e_nest e /\ e_nest e <= e_depth e /\ e_depth e <= Nat.max (maxd s) 1.

Lemma dinv_init d root : DInv (init d root).
Proof.
  unfold DInv; cbn. repeat split; try lia. all: destruct H as [<-|[]]; cbn; lia.
Qed.

Lemma step_maxd s s' : step s = Some s' -> maxd s' = maxd s.
Proof.
  unfold step. destruct (frames s) as [|[|c rest] fs].
  - destruct (deferred s); [discriminate|]. intros H; injection H as <-; reflexivity.
  - intros H; injection H as <-; reflexivity.
  - destruct (Nat.ltb (depth s) (maxd s)); intros H; injection H as <-; reflexivity.
Qed.

Lemma dinv_step s s' : DInv s -> step s = Some s' -> DInv s'.
Proof.
  intros (Hf & Hd & Hl) H. unfold step in H. destruct (frames s) as [|[|c rest] fs] eqn:Ef.
  - destruct (deferred s) as [|op ds]; [discriminate|]. injection H as <-. unfold DInv; cbn.
    split; [lia|]. split; [lia|].
    intros e Hin. apply in_app_iff in Hin as [Hin|[<-|[]]]; [auto|cbn; lia].
  - injection H as <-. unfold DInv; cbn in *. split; [lia|]. split; [lia|]. exact Hl.
  - destruct (Nat.ltb_spec (depth s) (maxd s)) as [Hlt|Hge]; injection H as <-; unfold DInv; cbn in *.
    + split; [lia|]. split; [lia|].
      intros e Hin. apply in_app_iff in Hin as [Hin|[<-|[]]]; [auto|cbn; lia].
    + split; [lia|]. split; [lia|]. exact Hl.
Qed.

Lemma run_maxd n s : maxd (run n s) = maxd s.
Proof.
  revert s; induction n as [|n IH]; intros s; cbn; [reflexivity|].
  destruct (step s) as [s'|] eqn:E; [|reflexivity]. rewrite IH. now apply step_maxd.
Qed.

Lemma dinv_run n s : DInv s -> DInv (run n s).
Proof.
  revert s; induction n as [|n IH]; intros s H; cbn; [exact H|].
  destruct (step s) as [s'|] eqn:E; [|exact H]. apply IH. eapply dinv_step; eauto.
Qed.

(* at every moment of the execution *)
Theorem depth_bound d root n :
  forall e, In e (log (run n (init d root))) ->
  1 <= e_nest e /\ e_nest e <= e_depth e /\ e_depth e <= Nat.max d 1.
Proof.
  intros e Hin. destruct (dinv_run n _ (dinv_init d root)) as (_ & _ & Hl).
  rewrite run_maxd in Hl. apply Hl. exact Hin.
Qed.

Lemma max_nest_le s b : (forall e, In e (log s) -> e_nest e <= b) -> max_nest s <= b.
Proof.
  unfold max_nest. induction (log s) as [|e l IH]; cbn; intros H; [lia|].
  apply Nat.max_lub; [apply H; now left|apply IH; intros; apply H; now right].
Qed.

Theorem max_nest_bound d root n : max_nest (run n (init d root)) <= Nat.max d 1.
Proof. apply max_nest_le. intros e Hin. pose proof (depth_bound d root n e Hin). lia. Qed.

(* ------------------------------------------------------------------------------------------ *)
(* nothing lost, nothing duplicated                                                            *)

Definition pending (s : st) : list (nat * bool) :=
  flat_map (flat_map nodes) (frames s) ++ flat_map nodes (deferred s).

Definition PInv (root : tree) (s : st) : Prop :=
  Permutation (map key (log s) ++ pending s) (nodes root).

Lemma pinv_init d root : PInv root (init d root).
Proof.
  unfold PInv, pending; cbn. rewrite !app_nil_r. rewrite (nodes_unfold root). reflexivity.
Qed.

Lemma pinv_step root s s' : PInv root s -> step s = Some s' -> PInv root s'.
Proof.
  unfold PInv, pending. intros HP H. unfold step in H.
  destruct (frames s) as [|[|c rest] fs] eqn:Ef.
  - destruct (deferred s) as [|op ds] eqn:Ed; [discriminate|]. injection H as <-. cbn in *.
    rewrite map_app, app_nil_r. cbn. rewrite <- HP. rewrite (nodes_unfold op).
    rewrite <- !app_assoc. cbn. reflexivity.
  - injection H as <-. cbn in *. exact HP.
  - destruct (Nat.ltb (depth s) (maxd s)); injection H as <-; cbn in *.
    + rewrite map_app. cbn. rewrite <- HP. rewrite (nodes_unfold c). rewrite <- !app_assoc. cbn.
      apply Permutation_app_head. reflexivity.
    + rewrite <- HP. apply Permutation_app_head. rewrite (nodes_unfold c).
      rewrite <- !app_assoc. cbn.
      (* move the deferred tree from the frame to the front of the deferred list *)
      set (A := (label c, is_stopped c) :: flat_map nodes (kids c)).
      set (B := flat_map nodes rest). set (C := flat_map (flat_map nodes) fs).
      set (D := flat_map nodes (deferred s)).
      change ((label c, is_stopped c) :: flat_map nodes (kids c) ++ B ++ C ++ D) with (A ++ B ++ C ++ D).
      change (B ++ C ++ (label c, is_stopped c) :: flat_map nodes (kids c) ++ D) with (B ++ C ++ A ++ D).
      rewrite (app_assoc B C (A ++ D)), (app_assoc B C D), (app_assoc A (B ++ C) D), (app_assoc (B ++ C) A D).
      apply Permutation_app_tail. apply Permutation_app_comm.
Qed.

Lemma pinv_run root n s : PInv root s -> PInv root (run n s).
Proof.
  revert s; induction n as [|n IH]; intros s H; cbn; [exact H|].
  destruct (step s) as [s'|] eqn:E; [|exact H]. apply IH. eapply pinv_step; eauto.
Qed.

(* ------------------------------------------------------------------------------------------ *)
(* termination                                                                                *)

Definition mu (s : st) : nat :=
  list_sum (map (fun f => 1 + 3 * sizes f) (frames s)) +
  list_sum (map (fun t => 2 + 3 * sizes (kids t)) (deferred s)).

Lemma mu_step s s' : step s = Some s' -> mu s' < mu s.
Proof.
  unfold step, mu, list_sum. destruct (frames s) as [|[|c rest] fs] eqn:Ef.
  - destruct (deferred s) as [|op ds]; [discriminate|]. intros H; injection H as <-.
    cbn [frames deferred map fold_right]. lia.
  - intros H; injection H as <-. cbn [frames deferred map fold_right].
    change (sizes []) with 0. lia.
  - destruct (Nat.ltb (depth s) (maxd s)); intros H; injection H as <-;
      cbn [frames deferred map fold_right]; rewrite sizes_cons, (size_unfold c); lia.
Qed.

Lemma run_finishes n s : mu s <= n -> step (run n s) = None.
Proof.
  revert s; induction n as [|n IH]; intros s H; cbn.
  - destruct (step s) as [s'|] eqn:E; [|reflexivity]. apply mu_step in E. lia.
  - destruct (step s) as [s'|] eqn:E; [|exact E]. apply IH. apply mu_step in E. lia.
Qed.

Lemma step_none_finished s : step s = None <-> finished s = true.
Proof.
  unfold step, finished. destruct (frames s) as [|[|c rest] fs].
  - destruct (deferred s); split; congruence.
  - split; discriminate.
  - destruct (Nat.ltb (depth s) (maxd s)); split; discriminate.
Qed.

Lemma mu_init d root : mu (init d root) <= fuel_for root.
Proof. unfold mu, fuel_for; cbn. rewrite (size_unfold root). lia. Qed.

(* the outermost start() returns (within 3 * size machine steps), and then nothing is deferred
   and every operation of the program has been completed exactly once *)
Theorem eval_complete d root :
  let s := eval d root in
  finished s = true /\ frames s = [] /\ deferred s = [] /\
  Permutation (map key (log s)) (nodes root).
Proof.
  intros s. assert (Hf : finished s = true).
  { apply step_none_finished. apply run_finishes. apply mu_init. }
  assert (Hfd : frames s = [] /\ deferred s = []).
  { unfold finished in Hf. destruct (frames s); [|discriminate]. destruct (deferred s); [auto|discriminate]. }
  destruct Hfd as [H1 H2]. repeat split; auto.
  pose proof (pinv_run root (fuel_for root) _ (pinv_init d root)) as HP.
  unfold PInv, pending in HP. fold (eval d root) in HP. fold s in HP. rewrite H1, H2 in HP. cbn in HP.
  now rewrite app_nil_r in HP.
Qed.

Lemma run_none n s : step s = None -> run n s = s.
Proof. intros H. destruct n; cbn; [reflexivity|]. now rewrite H. Qed.

Lemma run_add a b s : run (a + b) s = run b (run a s).
Proof.
  revert s; induction a as [|a IH]; intros s; cbn; [reflexivity|].
  destruct (step s) as [s'|] eqn:E; [apply IH|]. symmetry. now apply run_none.
Qed.

(* more fuel changes nothing: the result is the state at which the outermost start() returns *)
Theorem eval_stable d root n : fuel_for root <= n -> run n (init d root) = eval d root.
Proof.
  intros Hn. unfold eval. replace n with (fuel_for root + (n - fuel_for root)) by lia.
  rewrite run_add. apply run_none. apply run_finishes, mu_init.
Qed.

(* nothing completes twice even before the end *)
Theorem prefix_sub d root n :
  exists rest, Permutation (map key (log (run n (init d root))) ++ rest) (nodes root).
Proof.
  exists (pending (run n (init d root))). apply (pinv_run root n _ (pinv_init d root)).
Qed.
