(* E1 model AtomicQueue: include/unifex/detail/atomic_intrusive_queue.hpp
   (multi-producer single-consumer intrusive queue with an "inactive consumer" mark) and
   intrusive_queue::make_reversed (include/unifex/detail/intrusive_queue.hpp:45-59).
   head_ is one atomic pointer: nullptr (consumer active, no items), the inactive marker, or the
   newest item of a LIFO chain linked through the items' next pointers.
   Threads: 0 = the consumer, running a script of operations; 1..k = producers, producer p
   enqueues its items p.0, p.1, ... with enqueue().
   The consumer may call dequeue_all / try_mark_inactive / try_mark_inactive_or_dequeue_all only
   while it is active (the header's precondition); after it marked itself inactive it sleeps until
   the queue is active again, which happens exactly when a producer's enqueue() returns true
   ("consumer was inactive, you must wake it up") or when the consumer itself calls
   try_mark_active.  So those operations are modelled as blocked while head_ is the marker
   (when every producer has finished the sleeping consumer reactivates itself instead).
   compare_exchange_weak is modelled without spurious failures (a spurious failure re-runs the
   loop body with the same expected value and has no other effect).
   Executable definitions only. *)
From Coq Require Import List Bool Arith.
Import ListNotations.

Module AtomicQueue.

Definition item := (nat * nat)%type.   (* producer (thread id), sequence number *)

(* a value of head_ as seen by one access *)
Inductive ptr := PNull | PInactive | PItem (it : item).

Definition item_eqb (a b : item) : bool := Nat.eqb (fst a) (fst b) && Nat.eqb (snd a) (snd b).
Definition ptr_eqb (a b : ptr) : bool :=
  match a, b with
  | PNull, PNull => true
  | PInactive, PInactive => true
  | PItem x, PItem y => item_eqb x y
  | _, _ => false
  end.

(* consumer operations *)
Inductive cop :=
| OpDeq               (* dequeue_all (lines 113-127) *)
| OpDeqRev            (* dequeue_all_reversed (129-143): same accesses, the chain is handed over as an
                         intrusive_stack, newest first *)
| OpTryInactive       (* try_mark_inactive (145-162) *)
| OpInactiveOrDeq     (* try_mark_inactive_or_dequeue_all (168-180) *)
| OpTryActive         (* try_mark_active (60-67) *)
| OpFinal.            (* wait until every producer is done, then try_mark_active; dequeue_all;
                         the script ends here (anything after it is ignored) *)

Inductive cpc :=
| CStart                    (* about to make the first access of the next operation of the script *)
| CXchg                     (* about to head_.exchange(nullptr, acquire) (lines 121 / 174) *)
| CMarkCas (ordeq : bool).  (* loaded nullptr: about to CAS nullptr -> inactive (149-153);
                               ordeq = inside try_mark_inactive_or_dequeue_all *)

(* producer: enqueue(item j), lines 101-109 *)
Inductive ppc :=
| PLoad (j : nat)               (* about to head_.load(relaxed) *)
| PCas (j : nat) (old : ptr)    (* item->next set from old; about to CAS old -> item (acq_rel) *)
(* the same with enqueue_or_mark_active(item j), lines 78-93 (what v1 async_mutex uses) *)
| POLoad (j : nat)
| POCas (j : nat) (old : ptr).  (* about to CAS old -> (old == inactive ? nullptr : item) *)

Record st := {
  inactive : bool;            (* head_ == the inactive marker *)
  stack : list item;          (* the chain hanging off head_, newest first ([] = nullptr) *)
  script : list cop;          (* consumer operations still to run (head = current) *)
  cons : cpc;
  prods : list (nat * ppc);   (* per producer: number of items, program counter *)
  (* ghost *)
  enq : list item;            (* items in the order of their successful CAS (oldest first) *)
  delivered : list item;      (* concatenation of all batches returned to the consumer so far *)
  wakes : nat;                (* number of enqueue() calls that returned true plus
                                 enqueue_or_mark_active() calls that returned false (activations by a producer) *)
  marks : nat;                (* number of successful try_mark_inactive *)
  actives : nat;              (* number of successful try_mark_active *)
  finalph : bool              (* OpFinal has begun: every producer is done *)
}.

Inductive ev :=
| ELoad (v : ptr)                          (* head_.load(relaxed) *)
| EEnqCas (cur : ptr) (it : item) (ok : bool)   (* enqueue's CAS cur -> it *)
| EWake (it : item)                        (* enqueue(it) returned true *)
| EOrmCas (cur : ptr) (it : item) (tonull ok : bool)   (* enqueue_or_mark_active's CAS on the value cur; the new
                                              value is nullptr (tonull: the expected value was the marker) or it *)
| EDirect (it : item)                      (* enqueue_or_mark_active(it) returned false: the queue is active
                                              again, it was not enqueued, the caller processes it itself *)
| EMarkInactive (cur : ptr) (ok : bool)    (* CAS nullptr -> inactive *)
| EMarkActive (cur : ptr) (ok : bool)      (* CAS inactive -> nullptr *)
| EXchg (old : ptr)                        (* exchange(nullptr) *)
| EBatch (b : list item)                   (* the queue handed to the consumer, front first *)
| EBatchRev (b : list item).               (* the stack handed over by dequeue_all_reversed, top first *)

(* producer x calls enqueue_or_mark_active instead of enqueue when the x-th entry of kinds is true *)
Fixpoint mkprods (counts : list nat) (kinds : list bool) : list (nat * ppc) :=
  match counts with
  | [] => []
  | n :: r => (n, if hd false kinds then POLoad 0 else PLoad 0) :: mkprods r (tl kinds)
  end.

Definition init (active : bool) (counts : list nat) (kinds : list bool) (ops : list cop) : st :=
  {| inactive := negb active; stack := []; script := ops; cons := CStart;
     prods := mkprods counts kinds;
     enq := []; delivered := []; wakes := 0; marks := 0; actives := 0; finalph := false |}.

Fixpoint set_nth {A} (n : nat) (x : A) (l : list A) : list A :=
  match l, n with
  | [], _ => []
  | _ :: r, O => x :: r
  | y :: r, S n' => y :: set_nth n' x r
  end.

(* the value of head_ *)
Definition head_ptr (s : st) : ptr :=
  if inactive s then PInactive else match stack s with [] => PNull | x :: _ => PItem x end.

Definition nprods (s : st) : nat := length (prods s).

Definition prod_done (p : nat * ppc) : bool :=
  match snd p with PLoad j | POLoad j => Nat.leb (fst p) j | _ => false end.
Definition all_prods_done (s : st) : bool := forallb prod_done (prods s).

(* field updates *)
Definition set_head (s : st) (ina : bool) (stk : list item) : st :=
  {| inactive := ina; stack := stk; script := script s; cons := cons s; prods := prods s;
     enq := enq s; delivered := delivered s; wakes := wakes s; marks := marks s; actives := actives s; finalph := finalph s |}.
Definition set_cons (s : st) (ops : list cop) (c : cpc) : st :=
  {| inactive := inactive s; stack := stack s; script := ops; cons := c; prods := prods s;
     enq := enq s; delivered := delivered s; wakes := wakes s; marks := marks s; actives := actives s; finalph := finalph s |}.
Definition set_prod (s : st) (i : nat) (p : nat * ppc) : st :=
  {| inactive := inactive s; stack := stack s; script := script s; cons := cons s;
     prods := set_nth i p (prods s);
     enq := enq s; delivered := delivered s; wakes := wakes s; marks := marks s; actives := actives s; finalph := finalph s |}.
Definition add_enq (s : st) (it : item) (woke : bool) : st :=
  {| inactive := inactive s; stack := stack s; script := script s; cons := cons s; prods := prods s;
     enq := enq s ++ [it]; delivered := delivered s;
     wakes := if woke then S (wakes s) else wakes s; marks := marks s; actives := actives s; finalph := finalph s |}.
Definition add_delivered (s : st) (b : list item) : st :=
  {| inactive := inactive s; stack := stack s; script := script s; cons := cons s; prods := prods s;
     enq := enq s; delivered := delivered s ++ b; wakes := wakes s; marks := marks s; actives := actives s; finalph := finalph s |}.
Definition add_mark (s : st) : st :=
  {| inactive := inactive s; stack := stack s; script := script s; cons := cons s; prods := prods s;
     enq := enq s; delivered := delivered s; wakes := wakes s; marks := S (marks s); actives := actives s; finalph := finalph s |}.
Definition add_active (s : st) : st :=
  {| inactive := inactive s; stack := stack s; script := script s; cons := cons s; prods := prods s;
     enq := enq s; delivered := delivered s; wakes := wakes s; marks := marks s; actives := S (actives s); finalph := finalph s |}.

Definition set_final (s : st) : st :=
  {| inactive := inactive s; stack := stack s; script := script s; cons := cons s; prods := prods s;
     enq := enq s; delivered := delivered s; wakes := wakes s; marks := marks s; actives := actives s;
     finalph := true |}.

(* producer number i (thread id S i) *)
Definition step_prod (i : nat) (s : st) : option (st * list ev) :=
  match nth_error (prods s) i with
  | None => None
  | Some (n, PLoad j) =>
      if Nat.ltb j n then Some (set_prod s i (n, PCas j (head_ptr s)), [ELoad (head_ptr s)]) else None
  | Some (n, PCas j old) =>
      let it := (S i, j) in
      let cur := head_ptr s in
      if ptr_eqb cur old then
        (* item->next = (old == inactive) ? nullptr : old; head_ = item *)
        let woke := inactive s in
        let s1 := set_head s false (it :: (if woke then [] else stack s)) in
        let s2 := add_enq s1 it woke in
        Some (set_prod s2 i (n, PLoad (S j)),
              EEnqCas cur it true :: (if woke then [EWake it] else []))
      else Some (set_prod s i (n, PCas j cur), [EEnqCas cur it false])
  | Some (n, POLoad j) =>
      if Nat.ltb j n then Some (set_prod s i (n, POCas j (head_ptr s)), [ELoad (head_ptr s)]) else None
  | Some (n, POCas j old) =>
      let it := (S i, j) in
      let cur := head_ptr s in
      if ptr_eqb cur old then
        if inactive s then
          (* newValue = nullptr: the queue is marked active, the item is handed straight back to the
             caller -- a batch of one, linearised at this CAS (the chain is empty) *)
          let s1 := add_delivered (add_enq (set_head s false []) it true) [it] in
          Some (set_prod s1 i (n, POLoad (S j)), [EOrmCas cur it true true; EDirect it])
        else
          let s1 := add_enq (set_head s false (it :: stack s)) it false in
          Some (set_prod s1 i (n, POLoad (S j)), [EOrmCas cur it false true])
      else Some (set_prod s i (n, POCas j cur), [EOrmCas cur it (ptr_eqb old PInactive) false])
  end.

(* the exchange(nullptr) of dequeue_all / try_mark_inactive_or_dequeue_all followed by
   make_reversed: the consumer receives the chain oldest first *)
Definition do_xchg (s : st) (reversed : bool) (rest : list cop) : st * list ev :=
  let b := rev (stack s) in
  (set_cons (add_delivered (set_head s false []) b) rest CStart,
   [EXchg (head_ptr s); if reversed then EBatchRev (stack s) else EBatch b]).

Definition is_rev (op : cop) : bool := match op with OpDeqRev => true | _ => false end.

(* the CAS inactive -> nullptr of try_mark_active *)
Definition do_mark_active (s : st) (rest : list cop) : st * list ev :=
  if inactive s
  then (set_cons (add_active (set_head s false [])) rest CStart, [EMarkActive PInactive true])
  else (set_cons s rest CStart, [EMarkActive (head_ptr s) false]).

(* the consumer sleeps (inactive) and its next operation needs it active: it stays blocked until
   a producer reactivates the queue; once no producer is left it reactivates itself with
   try_mark_active (a consumer woken for another reason) and retries the operation *)
Definition self_wake (s : st) (op : cop) (rest : list cop) : option (st * list ev) :=
  if all_prods_done s then Some (do_mark_active s (op :: rest)) else None.

Definition step_cons (s : st) : option (st * list ev) :=
  match script s with
  | [] => None
  | op :: rest =>
      match cons s with
      | CStart =>
          match op with
          | OpTryActive => Some (do_mark_active s rest)
          | OpFinal =>
              if all_prods_done s
              then let (s1, e) := do_mark_active s [OpDeq] in Some (set_final s1, e)
              else None
          | OpDeq | OpDeqRev =>
              if inactive s then self_wake s op rest
              else match stack s with
                   | [] => Some (set_cons s rest CStart,
                                 [ELoad PNull; if is_rev op then EBatchRev [] else EBatch []])
                   | x :: _ => Some (set_cons s (op :: rest) CXchg, [ELoad (PItem x)])
                   end
          | OpTryInactive | OpInactiveOrDeq =>
              if inactive s then self_wake s op rest
              else
                let ordeq := match op with OpInactiveOrDeq => true | _ => false end in
                match stack s with
                | [] => Some (set_cons s (op :: rest) (CMarkCas ordeq), [ELoad PNull])
                | x :: _ =>
                    (* not empty: try_mark_inactive returns false *)
                    if ordeq then Some (set_cons s (op :: rest) CXchg, [ELoad (PItem x)])
                    else Some (set_cons s rest CStart, [ELoad (PItem x)])
                end
          end
      | CXchg => Some (do_xchg s (is_rev op) rest)
      | CMarkCas ordeq =>
          match stack s with
          | [] => Some (set_cons (add_mark (set_head s true [])) rest CStart,
                        [EMarkInactive PNull true] ++ (if ordeq then [EBatch []] else []))
          | x :: _ =>
              if ordeq then Some (set_cons s (op :: rest) CXchg, [EMarkInactive (PItem x) false])
              else Some (set_cons s rest CStart, [EMarkInactive (PItem x) false])
          end
      end
  end.

Definition step (t : nat) (s : st) : option (st * list ev) :=
  if Nat.eqb t 0 then step_cons s
  else if Nat.leb t (nprods s) then step_prod (pred t) s
  else None.

Definition final (s : st) : bool :=
  match script s with [] => all_prods_done s | _ => false end.

End AtomicQueue.
