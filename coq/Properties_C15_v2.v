(* C15, v2::async_mutex with cancellable waiters: theorems about the MutexV2 model
   (Proto/MutexV2Defs.v), for every number of lockers, every choice of which lockers have a stop
   requester (hs : list bool), every number nt of try_lock threads and every schedule.
   First parameter of init: true = completion_forwarder's receiver hides the stop token from the
   scheduler hop (the repair proposed for finding 12), false = the forwarder as it is in the tree. *)
From Coq Require Import List Bool Arith.
From V Require Import Base.Sched Proto.MutexV2Defs Proto.MutexV2Proofs.
Import ListNotations.
Import MutexV2.

(* Mutual exclusion (both variants): "tokens" counts the parties that own the mutex - threads
   inside process_queue with locked_ held or completing a lock operation that carries the lock,
   try_lock winners, and granted operations whose receiver has not started unlock() yet. *)
Theorem C15_v2_mutex : forall (fx : bool) (hs : list bool) (nt : nat) (sched : list nat),
  let s := fst (run step sched (init fx hs nt, [])) in
  tokens s <= b2n (locked s) /\ tokens s <= 1.
Proof. exact mutex. Qed.
Print Assumptions C15_v2_mutex.

(* lock_not_leaked, repaired forwarder: the lock is conserved - locked_ is set exactly when one
   party owns it (and is therefore responsible for unlocking). *)
Theorem C15_v2_lock_not_leaked : forall (hs : list bool) (nt : nat) (sched : list nat),
  let s := fst (run step sched (init true hs nt, [])) in
  tokens s = b2n (locked s).
Proof. exact lock_not_leaked. Qed.
Print Assumptions C15_v2_lock_not_leaked.

(* lock_not_leaked is FALSE for the forwarder as it is (finding 12): one locker, one stop request
   that arrives after the StopsEarly check and before the hop; the locker wins try_lock(), wins
   try_complete(), the inline scheduler sees the stopped token and the receiver gets set_done.
   Everybody has returned, nobody owns the mutex, locked_ stays true for ever. *)
Theorem C15_v2_lock_not_leaked_refuted : exists (hs : list bool) (nt : nat) (sched : list nat),
  let s := fst (run step sched (init false hs nt, [])) in
  quiescent s = true /\ locked s = true /\ tokens s = 0 /\
  o_res (ops s 0) = [ODone] /\ o_cancelled (ops s 0) = false.
Proof.
  exists [true], 0, [0;0;0; 1;1;1;1;1;1; 0;0;0;0;0;0;0;0].
  vm_compute. repeat split; reflexivity.
Qed.
Print Assumptions C15_v2_lock_not_leaked_refuted.

(* Every receiver is completed at most once. *)
Theorem C15_v2_each_once : forall (fx : bool) (hs : list bool) (nt : nat) (sched : list nat),
  let s := fst (run step sched (init fx hs nt, [])) in
  forall k, length (o_res (ops s k)) <= 1.
Proof. exact each_once. Qed.
Print Assumptions C15_v2_each_once.

(* try_complete() never returns false where the mutex calls it: in particular resume_'s branch
   "popped but already completed by stop: unlock again" is unreachable over a linearizable list
   (a waiter removed by try_remove is never popped). *)
Theorem C15_v2_try_complete_always_wins : forall (fx : bool) (hs : list bool) (nt : nat) (sched : list nat),
  let s := fst (run step sched (init fx hs nt, [])) in
  forall t k c kc, nth_error (thr s) t = Some (ATryComplete k c, kc) -> o_completed (ops s k) = false.
Proof. exact try_complete_always_wins. Qed.
Print Assumptions C15_v2_try_complete_always_wins.

(* Mutual exclusion (traces, both variants): acquire events (set_value of a lock operation,
   try_lock() = true) and release events alternate, each release by the current holder. *)
Theorem C15_v2_mutex_trace : forall (fx : bool) (hs : list bool) (nt : nat) (sched : list nat),
  let tr := snd (run step sched (init fx hs nt, [])) in
  exists h, scan tr = Some h.
Proof. exact mutex_trace. Qed.
Print Assumptions C15_v2_mutex_trace.

(* Each receiver is completed at most once (trace form; the trace agrees with the state). *)
Theorem C15_v2_each_once_trace : forall (fx : bool) (hs : list bool) (nt : nat) (sched : list nat),
  let c := run step sched (init fx hs nt, []) in
  forall k, completions (snd c) k = rev (o_res (ops (fst c) k)) /\ length (completions (snd c) k) <= 1.
Proof. exact each_once_trace. Qed.
Print Assumptions C15_v2_each_once_trace.

(* cancelled_never_owns: every completion event EComplete k o c carries the path c on which
   try_complete(k) was won.  On the cancellation paths (CEarly: stop before start; CStop: after
   a successful try_remove) the receiver gets set_done and the completing thread does not carry
   the lock (Defs: act_tok = 0 for these contexts).  With the repaired forwarder the converse
   holds: set_done is delivered ONLY on a cancellation path, i.e. never to an operation that had
   been given the lock (try_lock in start(), or popped by process_queue). *)
Theorem C15_v2_cancelled_never_owns : forall (fx : bool) (hs : list bool) (nt : nat) (sched : list nat),
  let tr := snd (run step sched (init fx hs nt, [])) in
  forall k o c, In (EComplete k o c) tr ->
    (is_lock_ctx c = false -> o = ODone) /\ (fx = true -> (o = ODone <-> is_lock_ctx c = false)).
Proof. exact cancelled_never_owns. Qed.
Print Assumptions C15_v2_cancelled_never_owns.

(* FIFO: at every moment, the waiters in the order in which their push_back claimed the tail,
   minus those removed by a successful try_remove (cancelled while queued), are exactly the
   waiters already popped (in pop order) followed by the queue: waiters are handed the mutex in
   the order they queued, and nobody is claimed twice. *)
Theorem C15_v2_fifo : forall (fx : bool) (hs : list bool) (nt : nat) (sched : list nat),
  let c := run step sched (init fx hs nt, []) in
  filter (fun i => negb (mem_nat i (removed (snd c)))) (claims (snd c)) = pops (snd c) ++ queue (fst c)
  /\ NoDup (claims (snd c)).
Proof. exact fifo. Qed.
Print Assumptions C15_v2_fifo.

(* No lost waiter, invariant part (both variants): an operation on which try_complete has not
   been called is never dropped - exactly one handle to it exists (its own thread before
   push_back, the queue, or one thread about to call try_complete); and the Dekker property of
   locked_ / queue_: when locked_ is false and a waiter is queued, some thread is between its
   push_back and its locked_.exchange or between locked_.store(false) and the re-check. *)
Theorem C15_v2_no_lost_waiter : forall (fx : bool) (hs : list bool) (nt : nat) (sched : list nat),
  let s := fst (run step sched (init fx hs nt, [])) in
  (forall k, k < nl s -> o_completed (ops s k) = false -> handles s k = 1) /\
  (locked s = false -> queue s <> [] -> guards s >= 1).
Proof. exact no_lost_waiter. Qed.
Print Assumptions C15_v2_no_lost_waiter.

(* No deadlock, repaired forwarder: every reachable state in which some thread has not finished
   (a locker waiting for its receiver, in particular) has a thread that can move: a queued waiter
   always has a holder that can run unlock(), a thread in the Dekker window, or a completion in
   flight; spin waits (source spin lock, callbackCompleted_, sync_complete, link locks of
   in-flight push_back / pop_front) always have their releaser enabled.  (For the forwarder as it
   is this is false: Example C15_v2_example_leak_starves_waiter below.) *)
Theorem C15_v2_progress : forall (hs : list bool) (nt : nat) (sched : list nat),
  let s := fst (run step sched (init true hs nt, [])) in
  quiescent s = false -> exists t, step t s <> None.
Proof. exact progress. Qed.
Print Assumptions C15_v2_progress.

(* At quiescence every locker's receiver has been completed exactly once (set_value, then it
   released the mutex; or set_done), the queue is empty and - repaired forwarder - the mutex is
   unlocked.  Together with C15_v2_progress: if every holder unlocks, every started lock
   operation completes, the uncancelled ones with the mutex (C15_v2_cancelled_never_owns). *)
Theorem C15_v2_served_at_quiescence : forall (fx : bool) (hs : list bool) (nt : nat) (sched : list nat),
  let s := fst (run step sched (init fx hs nt, [])) in
  quiescent s = true ->
  (forall i, i < nl s -> length (o_res (ops s i)) = 1) /\ queue s = [] /\ (fx = true -> locked s = false).
Proof. exact served_at_quiescence. Qed.
Print Assumptions C15_v2_served_at_quiescence.

(* the full state invariant *)
Theorem C15_v2_inv_reachable : forall (fx : bool) (hs : list bool) (nt : nat) (sched : list nat),
  Inv (fst (run step sched (init fx hs nt, []))).
Proof. exact inv_reachable. Qed.
Print Assumptions C15_v2_inv_reachable.

(* The leak with a victim (the schedule found on the real code): lockers 0 and 1, stop requester
   (thread 3) for locker 1.  1 passes the early check, stop is requested, 1 wins try_lock and is
   completed with done; 0 finds the mutex locked, enqueues and waits for ever: no thread can move. *)
Example C15_v2_example_leak_starves_waiter :
  let sched := [1;1;1; 3;3;3;3;3;3; 1;1;1;1;1;1;1;1; 0;0;0;0;0;0;0;0;0] in
  let s := fst (run step sched (init false [false; true] 0, [])) in
  quiescent s = false /\ locked s = true /\ queue s = [0] /\ tokens s = 0 /\
  o_res (ops s 0) = [] /\ o_res (ops s 1) = [ODone] /\
  forallb (fun t => match step t s with None => true | Some _ => false end) [0; 1; 2; 3] = true.
Proof. vm_compute. repeat split; reflexivity. Qed.

(* The same schedule with the repaired forwarder: 1 acquires, releases, hands the mutex to 0. *)
Example C15_v2_example_fixed_same_schedule :
  let sched := [1;1;1; 3;3;3;3;3;3; 1;1;1;1;1;1;1; 0;0;0;0;0;0;0;0;0; 1;1;1;1;1;1; 0;0;0;0] in
  let c := run step sched (init true [false; true] 0, []) in
  quiescent (fst c) = true /\ locked (fst c) = false /\ queue (fst c) = [] /\ tokens (fst c) = 0 /\
  o_res (ops (fst c) 0) = [OValue] /\ o_res (ops (fst c) 1) = [OValue].
Proof. vm_compute. repeat split; reflexivity. Qed.
