(* C14 for io_uring_context: one read/write operation (model Proto/UringOpDefs.v): the refCount_
   election between the operation's completion and its cancellation, the resubmission from
   pendingIoQueue_ when the ring is full, the stop callback's registration; stop requested before
   the start / at any time / never by any number of threads, ring full or not, descriptor readable
   before / at any time / never, failing syscall; all schedules.

   The theorems C14_uring_* hold for the FIXED variant (fixed = true: the code with
   out/C14/fix_uring_all.diff applied); for the code as written the *_refuted theorems give witness
   schedules (findings 10, 16 and 17), each reproduced on the real code by the real-thread cases
   `resubmit`, `prestop` and `stoprace` of harness/k1_uring_io.cpp.

   PARTIAL: the kernel's ring behaviour is assumed as modelled, and this model is tied to the real
   code only through those direct monitors (no lock-step replay: the context's thread sleeps in
   io_uring_enter and the kernel completes entries asynchronously). *)
From Coq Require Import List Bool Arith.
From V Require Import Base.Sched Proto.UringOpDefs Proto.UringOpProofs.
Import ListNotations.
Import UringOp.

(* uring_one_completer *)
Theorem C14_uring_at_most_once : forall p nstop (sched : list nat), fixed p = true ->
  let c := co (fst (run step sched (init p nstop, []))) in
  length (completed c) <= 1.
Proof. exact uring_at_most_once. Qed.
Print Assumptions C14_uring_at_most_once.

Theorem C14_uring_completes : forall p nstop (sched : list nat), fixed p = true ->
  let s := fst (run step sched (init p nstop, [])) in
  (forall t, step t s = None) ->
  completed (co s) <> [] \/ (parked_ok (co s) = true /\ xfer (co s) = 0).
Proof. exact uring_completes. Qed.
Print Assumptions C14_uring_completes.

Theorem C14_uring_true_result : forall p nstop (sched : list nat), fixed p = true ->
  let c := co (fst (run step sched (init p nstop, []))) in
  xfer c <= 1 /\
  match completed c with
  | [] => True
  | [RValue] => xfer c = 1
  | [RError k] => xfer c = 0 /\ fail p = Some k
  | [RDone] => xfer c = 0 /\ (stopped c = true \/ fail p = Some KCanceled)
  | _ => False
  end.
Proof. exact uring_true_result. Qed.
Print Assumptions C14_uring_true_result.

(* the stop callback is linked at most once, request_stop() returns, a cancellation is never
   processed before its operation was submitted, nothing touches the operation after completion *)
Theorem C14_uring_callback_once : forall p nstop (sched : list nat), fixed p = true ->
  let c := co (fst (run step sched (init p nstop, []))) in
  links c <= 1 /\ spinning c = false /\ lost_cancel c = false /\ uaf c = false.
Proof. exact uring_callback_once. Qed.
Print Assumptions C14_uring_callback_once.

Theorem C14_uring_clean_completion : forall p nstop (sched : list nat), fixed p = true ->
  let c := co (fst (run step sched (init p nstop, []))) in
  completed c <> [] ->
  localq c = [] /\ remoteq c = [] /\ pend c = [] /\ cqes c = [] /\ links c = 0 /\ refc c = 0 /\
  io c = UIdle /\ runner c = RNone /\ rd c <> KInflight /\ cn c <> KInflight /\ cn c <> KEarly /\
  cb c <> CbReg /\ cb c <> CbRunning.
Proof. exact uring_clean_completion. Qed.
Print Assumptions C14_uring_clean_completion.

(* ---- the code as written --------------------------------------------------------------------- *)
Theorem C14_uring_callback_once_refuted :
  exists p nstop sched, fixed p = false /\
    links (co (fst (run step sched (init p nstop, [])))) = 2.
Proof. exact uring_callback_once_refuted. Qed.
Print Assumptions C14_uring_callback_once_refuted.

Theorem C14_uring_request_stop_returns_refuted :
  exists p sched, fixed p = false /\
    let s := fst (run step sched (init p 1, [])) in
    spinning (co s) = true /\
    exists s', step 4 s = Some (s', [ESpin]) /\ spinning (co s') = true /\ sts s' = sts s.
Proof. exact uring_request_stop_returns_refuted. Qed.
Print Assumptions C14_uring_request_stop_returns_refuted.

Theorem C14_uring_prestop_refuted :
  exists p nstop sched, fixed p = false /\ pre p = true /\
    let s := fst (run step sched (init p nstop, [])) in
    lost_cancel (co s) = true /\ stopped (co s) = true /\ completed (co s) = [] /\ rd (co s) = KInflight /\
    step 0 s = None /\ step 1 s = None.
Proof. exact uring_prestop_refuted. Qed.
Print Assumptions C14_uring_prestop_refuted.

Theorem C14_uring_true_result_refuted :
  exists p sched, fixed p = false /\
    let c := co (fst (run step sched (init p 1, []))) in
    completed c = [RDone] /\ xfer c = 1.
Proof. exact uring_true_result_refuted. Qed.
Print Assumptions C14_uring_true_result_refuted.

(* a non-trivial fixed run: ring full at the start, the read waits on pendingIoQueue_, a stopper
   cancels it after it was resubmitted: both completions arrive, the second one completes with done *)
Example C14_uring_example_cancel_after_resubmit :
  let p := {| fixed := true; pre := false; full0 := true; ready0 := false; fail := None |} in
  let c := co (fst (run step [0;0;3;0;0;4;4;4;0;0;0;1;0;0;0;0;0;0;4;0;0] (init p 1, []))) in
  completed c = [RDone] /\ links c = 0 /\ xfer c = 0 /\ refc c = 0.
Proof. vm_compute. auto. Qed.
