(* C13 (concurrent half) -- the race protocol inside stop_immediately.
   Model: Proto/StopImmediatelyDefs.v (module StopImmediately), proofs: Proto/StopImmediatelyProofs.v.
   Threads: 0 = the first next() call; 1 / 3 / 4 = thread A completing the outstanding next(source)
   with value / done / error (1 also completes cleanup(source)); 2 = request_stop on the consumer's
   stop source.  The consumer runs inline in every completion, as reduce_stream does.  The number of
   elements, every outcome and every timing are chosen by the schedule: forall sched covers them.
   p_fix_start = false: next-op start() as it was before commit 6e8955a (finding 9);
   p_fix_signal = false: handle_signal() as it was before the repair of finding 9b (it read stream_ of
   the receiver it had just destroyed); /repo now corresponds to p_fix_start = p_fix_signal = true.
   final p sched = the state after running schedule sched from init p. *)
From Coq Require Import List Bool Arith.
From V Require Import Base.Sched Proto.StopImmediatelyDefs Proto.StopImmediatelyProofs.
Import ListNotations.
Import StopImmediately.

(* every schedule stays inside the (finite, computed, closed) reachable set *)
Theorem C13_stopimm_reach_complete : forall (p : params) (sched : list nat) (tr : list ev),
  In (fst (run step sched (init p, tr))) (reach p).
Proof. intros p. exact (reach_inv p (reach p) (reach_closed p)). Qed.
Print Assumptions C13_stopimm_reach_complete.

(* no UNIFEX_ASSERT of the adaptor can fail, every op-state is used in protocol (next() never
   completes twice, next(source) / cleanup(source) never overlap, constructed once, ...), and a
   stop callback that took the receiver completes that next() with done: all variants *)
Theorem C13_stopimm_protocol_safe : forall (p : params) (sched : list nat),
  let s := final p sched in bad (g s) = false /\ wrong (g s) = false.
Proof. exact protocol_safe. Qed.
Print Assumptions C13_stopimm_protocol_safe.

(* each next() of the consumer completes exactly once, rounds do not overlap, nothing follows
   done / error except one cleanup(), which completes at most once -- and exactly once, with
   every next() completed, when all threads are done (trace level) *)
Theorem C13_stopimm_each_next_and_cleanup_once : forall (p : params) (sched : list nat),
  let c := run step sched (init p, []) in
  walk PhIdle (snd c) = Some (phase_of (fst c)) /\
  (quiescent (fst c) = true -> walk PhIdle (snd c) = Some PhFinished).
Proof. intros p sched. cbv zeta. split; [apply trace_rounds|apply quiescent_all_completed]. Qed.
Print Assumptions C13_stopimm_each_next_and_cleanup_once.

(* no element delivered twice, none invented: the values delivered (plus a pending one) never
   exceed the values the source produced *)
Theorem C13_stopimm_no_duplicate_no_invented : forall (p : params) (sched : list nat),
  let c := run step sched (init p, []) in
  count is_consv (snd c) + pendv (fst c) <= count is_srcv (snd c).
Proof. exact trace_values. Qed.
Print Assumptions C13_stopimm_no_duplicate_no_invented.

(* a stop request takes the receiver at most once, and after it has no value reaches the consumer *)
Theorem C13_stopimm_stop_ends_the_sequence : forall (p : params) (sched : list nat),
  let c := run step sched (init p, []) in
  count is_won (snd c) = (if cb_won (g (fst c)) then 1 else 0) /\
  no_value_after_won (snd c) = true.
Proof. exact trace_stop_ends_values. Qed.
Print Assumptions C13_stopimm_stop_ends_the_sequence.

(* done at once: the thread whose stop callback took the receiver never waits for the source; at
   worst for the momentary holder of the stop source's lock, who can always move *)
Theorem C13_stopimm_done_at_once : forall (p : params) (sched : list nat),
  let s := final p sched in
  forall t, won_tid s = Some t ->
    step t s <> None \/
    (ext_locked (m s) = true /\ exists t', t' <> t /\ step t' s <> None /\
       holder_pc (match t' with 0 => t0pc s | 2 => tcpc s | _ => tapc s end) = true).
Proof. exact done_at_once. Qed.
Print Assumptions C13_stopimm_done_at_once.

(* the abandoned next(source) is awaited by cleanup: when the consumer's cleanup() has completed
   nothing of the source is outstanding or alive; cleanup(source) ran and was destroyed exactly
   when a next(source) was ever started; it only starts once the outstanding next(source) has
   completed and been destroyed; the stop request reached the source iff the callback won *)
Theorem C13_stopimm_abandoned_next_awaited_by_cleanup : forall (p : params) (sched : list nat),
  let s := final p sched in
  (finished (g s) = true ->
     src_out (m s) = false /\ scl_out (m s) = false /\ snop (g s) = ONone /\
     nop_alive (g s) = false /\ cop_alive (g s) = false /\
     scop (g s) = (if src_ever (g s) then ODead else ONone)) /\
  (scl_out (m s) = true -> src_out (m s) = false /\ snop (g s) = ONone /\ scop (g s) = OStarted) /\
  (si_src (m s) <> 0 -> cb_won (g s) = true) /\
  (cb_won (g s) = true -> finished (g s) = true -> si_src (m s) = 1).
Proof. exact abandoned_next_awaited_by_cleanup. Qed.
Print Assumptions C13_stopimm_abandoned_next_awaited_by_cleanup.

(* no step touches a destroyed op-state or the destroyed stream: repaired code *)
Theorem C13_stopimm_no_touch_after_destroy : forall (stop : bool) (sched : list nat),
  let p := {| p_fix_start := true; p_fix_signal := true; p_stop := stop |} in
  uaf (g (final p sched)) = false.
Proof. intros stop sched. cbv zeta. apply no_touch_after_destroy; reflexivity. Qed.
Print Assumptions C13_stopimm_no_touch_after_destroy.

(* ... refuted for next-op start() as it was (finding 9) ... *)
Theorem C13_stopimm_no_touch_after_destroy_refuted_start :
  exists sched,
    let c := run step sched (init {| p_fix_start := false; p_fix_signal := true; p_stop := true |}, []) in
    uaf (g (fst c)) = true /\ nop_alive (g (fst c)) = false /\
    In ESrcStartBad (snd c) /\ bad (g (fst c)) = false.
Proof. exact no_touch_after_destroy_refuted_start. Qed.
Print Assumptions C13_stopimm_no_touch_after_destroy_refuted_start.

(* ... and for handle_signal() as it was (finding 9b) *)
Theorem C13_stopimm_no_touch_after_destroy_refuted_signal :
  exists sched,
    let c := run step sched (init {| p_fix_start := true; p_fix_signal := false; p_stop := true |}, []) in
    uaf (g (fst c)) = true /\ snop (g (fst c)) = ONone /\
    In EDeadReceiver (snd c) /\ bad (g (fst c)) = false.
Proof. exact no_touch_after_destroy_refuted_signal. Qed.
Print Assumptions C13_stopimm_no_touch_after_destroy_refuted_signal.

(* no deadlock: in a reachable state in which not everything is finished some thread can move *)
Theorem C13_stopimm_progress : forall (p : params) (sched : list nat),
  let s := final p sched in quiescent s = false -> exists t, step t s <> None.
Proof. exact progress. Qed.
Print Assumptions C13_stopimm_progress.

(* the hypotheses are met by concrete non-trivial runs *)
Definition p_fixed_stop : params := {| p_fix_start := true; p_fix_signal := true; p_stop := true |}.

(* two values, then stop wins the race against the third next(source), which completes (with a
   value that is dropped) only after cleanup was requested; cleanup(source) then runs *)
Definition sched_example : list nat :=
  [0;0;0;0;0;0; 1;1;1;1;1;1;1;1;1;1; 1;1;1;1;1;1;1;1;1;1; 2;2;2;2;2;2;2;2;2;2;2;2; 1;1; 1].

Example C13_stopimm_example_run :
  let c := run step sched_example (init p_fixed_stop, []) in
  quiescent (fst c) = true /\ cb_won (g (fst c)) = true /\
  count is_consv (snd c) = 2 /\ count is_srcv (snd c) = 3 /\
  walk PhIdle (snd c) = Some PhFinished /\ uaf (g (fst c)) = false.
Proof. vm_compute. repeat split. Qed.

Example C13_stopimm_reach_sizes :
  map (fun p => length (reach p))
      [{| p_fix_start := true; p_fix_signal := true; p_stop := false |}; p_fixed_stop;
       {| p_fix_start := false; p_fix_signal := false; p_stop := true |}] = [30; 401; 478].
Proof. vm_compute. reflexivity. Qed.
