(* C16, async_pass half: the single-word rendezvous of unifex::async_pass, each asynchronous side
   wrapped in cancellable<> and completing through completion_forwarder.
   Model: Proto/AsyncPassDefs.v (AsyncPass.step / init).  [reach hop_stoppable prog sched] is the
   state after running the schedule from the initial state of the program.
   hop_stoppable = false: the forwarder's hop cannot be cancelled (the fix); all theorems.
   hop_stoppable = true : the tree as it is; call_value_iff_accepted is refuted. *)
From Coq Require Import List Bool Arith.
From V Require Import Base.Sched Proto.AsyncPassDefs Proto.AsyncPassProofs.
Import ListNotations.
Import AsyncPass.

(* each party completes at most once (any hop) *)
Theorem C16_pass_each_once : forall hsb prog sched k,
  length (delivered (reach hsb prog sched) k) <= 1.
Proof. exact each_once. Qed.
Print Assumptions C16_pass_each_once.

(* every payload is received by at most one consumer, every acceptor receives at most one payload *)
Theorem C16_pass_payload_to_exactly_one : forall hsb prog sched, let s := reach hsb prog sched in
  (forall p x x', received s x p -> received s x' p -> x = x') /\
  (forall x p p', In (payload_res s p) (delivered s x) -> In (payload_res s p') (delivered s x) -> p = p') /\
  (forall x, length (delivered s x) <= 1).
Proof. exact payload_to_exactly_one. Qed.
Print Assumptions C16_pass_payload_to_exactly_one.

(* hop unstoppable: a call completes with value only if its payload was handed over, with done only
   if it was not; the acceptor holding it completes with exactly that payload; and in every final
   state: value iff some consumer received the payload *)
Theorem C16_pass_call_value_iff_accepted : forall prog sched, let s := reach false prog sched in
  forall i, is_caller_kind (kd s i) = true ->
    (In RValue (delivered s i) -> accepted s i) /\
    (In RDone (delivered s i) -> ~ accepted s i) /\
    (forall x r, slot s x = Some (payload_res s i) -> In r (delivered s x) -> r = payload_res s i) /\
    (all_done s = true -> (delivered s i = [RValue] <-> exists x, received s x i)).
Proof. exact call_value_iff_accepted. Qed.
Print Assumptions C16_pass_call_value_iff_accepted.

(* hop stoppable (completion_forwarder as written): caller 0 is completed with done although
   acceptor 1 received its payload (finding 12) *)
Theorem C16_pass_call_value_iff_accepted_refuted : exists prog sched, let s := reach true prog sched in
  is_caller_kind (kd s 0) = true /\ delivered s 0 = [RDone] /\ slot s 1 = Some (RGot 0) /\
  delivered s 1 = [RGot 0] /\ accepted s 0 /\ received s 1 0 /\ all_done s = true.
Proof. exact call_value_iff_accepted_refuted. Qed.
Print Assumptions C16_pass_call_value_iff_accepted_refuted.

(* a cancelled call leaves its payload untouched, a cancelled accept took none; whoever is in the
   word is a live waiter; a party whose stop was requested is not left waiting *)
Theorem C16_pass_cancel_leaves_other_waiting : forall prog sched, let s := reach false prog sched in
  (forall i, is_caller_kind (kd s i) = true -> In RDone (delivered s i) -> ~ accepted s i) /\
  (forall j p, kd s j = TAccept -> In RDone (delivered s j) -> slot s j <> Some (payload_res s p)) /\
  (forall k, w s = word_of s k -> w s <> WIdle ->
     party s k = true /\ ccomp s k = false /\ delivered s k = [] /\ slot s k = None /\ stk s k <> init_stack) /\
  (all_done s = true -> forall k, party s k = true -> stopreq s k = true -> length (delivered s k) = 1).
Proof. exact cancel_leaves_other_waiting. Qed.
Print Assumptions C16_pass_cancel_leaves_other_waiting.

(* the step that cancels: the word goes back to idle and nobody else's state changes *)
Theorem C16_pass_stop_is_local : forall t s s' e k rest,
  stk s t = MStopCas k :: rest -> aborted s = false -> w s = word_of s k -> step t s = Some (s', e) ->
  w s' = WIdle /\
  forall k', k' <> k -> slot s' k' = slot s k' /\ delivered s' k' = delivered s k' /\ ccomp s' k' = ccomp s k' /\
                        cstop s' k' = cstop s k' /\ cstart s' k' = cstart s k' /\ taken s' k' = taken s k' /\
                        tres s' k' = tres s k' /\ (k' <> t -> stk s' k' = stk s k').
Proof. exact stop_is_local. Qed.
Print Assumptions C16_pass_stop_is_local.

(* try_call returns true only if an acceptor took its payload and false only if nobody did;
   a caller whose payload a try_accept returned was waiting in the word and is never cancelled *)
Theorem C16_pass_try_only_if_counterpart_waiting : forall hsb prog sched, let s := reach hsb prog sched in
  (forall t, kd s t = TTryCall ->
     (tres s t = Some RValue -> exists j, holds s j t /\ (kd s j = TAccept \/ kd s j = TTryAccept)) /\
     (tres s t = Some RDone -> forall x, ~ holds s x t)) /\
  (forall t i, is_caller_kind (kd s i) = true -> tres s t = Some (payload_res s i) ->
     slot s i = None /\ (ccomp s i = true \/ ptc s i >= 1) /\ (hs s = false -> ~ In RDone (delivered s i))).
Proof. exact try_only_if_counterpart_waiting. Qed.
Print Assumptions C16_pass_try_only_if_counterpart_waiting.

(* no deadlock: while some thread has work left (and std::terminate was not called), some thread can move *)
Theorem C16_pass_no_deadlock : forall hsb prog sched, let s := reach hsb prog sched in
  aborted s = false -> all_done s = false -> exists t, step t s <> None.
Proof. exact no_deadlock. Qed.
Print Assumptions C16_pass_no_deadlock.

(* final states: every party completed exactly once or is THE waiter in the word with no stop
   requested; so a caller and an acceptor are never both left waiting *)
Theorem C16_pass_terminal_states : forall hsb prog sched, let s := reach hsb prog sched in
  all_done s = true ->
  (forall k, party s k = true ->
     (length (delivered s k) = 1 /\ w s <> word_of s k) \/
     (w s = word_of s k /\ delivered s k = [] /\ stopreq s k = false)) /\
  (forall i j, is_caller_kind (kd s i) = true -> kd s j = TAccept ->
     length (delivered s i) = 1 \/ length (delivered s j) = 1).
Proof. exact terminal_states. Qed.
Print Assumptions C16_pass_terminal_states.

(* std::terminate (two callers or two acceptors meeting in the word) needs two of a kind *)
Theorem C16_pass_no_terminate_if_one_each : forall hsb prog sched,
  one_caller (init hsb prog) -> one_acceptor (init hsb prog) -> aborted (reach hsb prog sched) = false.
Proof. exact never_terminates_if_one_each. Qed.
Print Assumptions C16_pass_no_terminate_if_one_each.

(* the whole invariant *)
Theorem C16_pass_inv_reachable : forall hsb prog sched, InvAll (reach hsb prog sched).
Proof. exact invall_reachable. Qed.
Print Assumptions C16_pass_inv_reachable.

(* the refutation's program and schedule with the hop made unstoppable *)
Example C16_pass_example_fixed_hop :
  let s := reach false [TCall; TAccept; TStop 0] [2; 1;1;1;1;1; 0;0;0;0;0;0;0;0;0;0;0;0] in
  delivered s 0 = [RValue] /\ delivered s 1 = [RGot 0] /\ all_done s = true.
Proof. vm_compute. repeat split; reflexivity. Qed.

(* threads: 0 call, 1 accept, 2 stops the call, 3 stops the accept.  The acceptor parks, its stop
   arrives and cancels it (the word returns to idle); the caller then parks and is cancelled too:
   both complete with done, the payload is untouched *)
Example C16_pass_example_both_cancelled :
  let s := reach false [TCall; TAccept; TStop 0; TStop 1]
             [1;1;1;1;1; 3;3;3;3;3;3; 0;0;0;0;0; 2;2;2;2;2;2] in
  delivered s 0 = [RDone] /\ delivered s 1 = [RDone] /\ w s = WIdle /\ all_done s = true /\
  slot s 1 = Some RDone /\ taken s 0 = None.
Proof. vm_compute. repeat split; reflexivity. Qed.

(* try_call against nobody returns false; against a parked acceptor returns true and the acceptor
   receives payload 1; a lone caller stays parked in the word *)
Example C16_pass_example_try :
  let a := reach false [TTryCall] [0] in
  let b := reach false [TAccept; TTryCall] [0;0;0;0;0; 1;1;1;1;1;1] in
  let c := reach false [TCall] [0;0;0;0;0] in
  tres a 0 = Some RDone /\ all_done a = true /\
  tres b 1 = Some RValue /\ delivered b 0 = [RGot 1] /\ all_done b = true /\
  w c = WCaller 0 /\ delivered c 0 = [] /\ all_done c = true.
Proof. vm_compute. repeat split; reflexivity. Qed.

(* two callers: the second one to look at the word calls std::terminate *)
Example C16_pass_example_terminate :
  let s := reach false [TCall; TCall] [0;0;0; 1;1] in aborted s = true.
Proof. vm_compute. reflexivity. Qed.
