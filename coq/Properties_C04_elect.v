(* C04 clauses for when_all_range and stop_when (model Proto/RegElectDefs.v): for both variants, ALL lists of
   child outcomes (any n), both stop modes and ALL schedules. *)
From Coq Require Import ZArith List Bool.
From V Require Import Base.Sched Proto.RegElectDefs Proto.RegElectProofs Proto.RegElectThms.
Import ListNotations.
Import RegElect.

(* "every stop callback an operation registered on its receiver's token is deregistered before that receiver
   is completed": no completion ever happened with the callback registered, and it stays deregistered *)
Theorem C04_regelect_deregistered_at_completion :
  forall (v : variant) (outs : list outcome) (req pre : bool) (sched : list nat),
  let s := fst (run step sched (init v outs req pre, [])) in
  badreg s = 0%nat /\ (delivered s <> [] -> registered (cbk s) = false).
Proof. exact never_completed_registered. Qed.
Print Assumptions C04_regelect_deregistered_at_completion.

(* "the callback never touches the operation after the delivery" (nor does anybody else) *)
Theorem C04_regelect_no_late_touch :
  forall (v : variant) (outs : list outcome) (req pre : bool) (sched : list nat),
  let s := fst (run step sched (init v outs req pre, [])) in
  late s = 0%nat.
Proof. exact no_late_touch. Qed.
Print Assumptions C04_regelect_no_late_touch.

(* "a stop request on the receiver's token that arrives while children run is forwarded to the own stop source
   before the callback returns": past its request_stop (CSub, CDereg, CLoad, CRet = returned) own is set; the only
   other way to return is the bail-out, and then every child had already dropped its count *)
Theorem C04_regelect_stop_forwarded :
  forall (v : variant) (outs : list outcome) (req pre : bool) (sched : list nat),
  let s := fst (run step sched (init v outs req pre, [])) in
  (cb_fwd (cb s) = true -> own s = true) /\ (cb s = CBail -> nA s = 0%nat).
Proof. exact stop_forwarded. Qed.
Print Assumptions C04_regelect_stop_forwarded.
