(* C09 -- a future yields its operation's result or done; the shared state is freed once.
   Model: Proto/FutureDefs.v (module Future), proofs: Proto/FutureProofs.v.
   p_fixed = false is the code as written, p_fixed = true the code with the repairs of
   findings 7, 13 and 14.  final p sched = the state after running schedule sched from init p.
   Conditions: away7 p = not (value whose copy throws and the future is dropped);
   away13 p = the program is not PStop; away14 p = the program is not PConnDrop;
   awaited p = the program is PAwait or PStop. *)
From Coq Require Import List Bool Arith.
From V Require Import Base.Sched Proto.FutureDefs Proto.FutureProofs.
Import ListNotations.
Import Future.

(* every schedule stays inside the (finite, computed, closed) reachable set *)
Theorem C09_reach_complete : forall (p : params) (sched : list nat) (tr : list ev),
  In (fst (run step sched (init p, tr))) (reach p).
Proof. intros p. exact (reach_inv p (reach p) (reach_closed p)). Qed.
Print Assumptions C09_reach_complete.

(* deleted <= 1, and = 1 at quiescence: fixed code, all outcomes / faults / programs; code as
   written away from finding 14 *)
Theorem C09_deleted_once : forall (p : params) (sched : list nat),
  let s := final p sched in
  p_fixed p || away14 p = true ->
  deleted (g s) <= 1 /\ (quiescent s = true -> deleted (g s) = 1).
Proof. exact deleted_once. Qed.
Print Assumptions C09_deleted_once.

Theorem C09_deleted_once_fixed :
  forall (o : outcome) (fault : bool) (pr : prog) (sched : list nat),
  let p := {| p_fixed := true; p_out := o; p_fault := fault; p_prog := pr |} in
  let c := run step sched (init p, []) in
  deleted (g (fst c)) <= 1 /\ (quiescent (fst c) = true -> deleted (g (fst c)) = 1) /\
  length (filter is_dealloc (snd c)) = deleted (g (fst c)).
Proof.
  intros o fault pr sched. cbv zeta. split; [|split].
  - apply (deleted_once _ sched). reflexivity.
  - apply (deleted_once _ sched). reflexivity.
  - apply trace_deallocs.
Qed.
Print Assumptions C09_deleted_once_fixed.

(* the stored result is destroyed exactly once and the member destroyed is the member
   constructed: fixed code, all parameters; code as written away from findings 7 and 14 *)
Theorem C09_result_destroyed_once_and_matching : forall (p : params) (sched : list nat),
  let s := final p sched in
  p_fixed p || (away7 p && away14 p) = true ->
  (destroyed (g s) = [] \/ exists c, constructed (g s) = Some c /\ destroyed (g s) = [c]) /\
  (quiescent s = true ->
     destroyed (g s) = match constructed (g s) with Some c => [c] | None => [] end).
Proof. exact result_destroyed_once_and_matching. Qed.
Print Assumptions C09_result_destroyed_once_and_matching.

Theorem C09_result_destroyed_once_and_matching_fixed :
  forall (o : outcome) (fault : bool) (pr : prog) (sched : list nat),
  let p := {| p_fixed := true; p_out := o; p_fault := fault; p_prog := pr |} in
  let s := final p sched in
  (destroyed (g s) = [] \/ exists c, constructed (g s) = Some c /\ destroyed (g s) = [c]) /\
  (quiescent s = true ->
     destroyed (g s) = match constructed (g s) with Some c => [c] | None => [] end).
Proof. intros o fault pr sched. apply result_destroyed_once_and_matching. reflexivity. Qed.
Print Assumptions C09_result_destroyed_once_and_matching_fixed.

(* the future's result: the operation's value / error, or done iff the operation completed
   with done or the future was cancelled before the result was available (ab_won); a result
   already available wins over stop (op_won excludes ab_won); a dropped future completes nobody.
   As written AND fixed. *)
Theorem C09_future_result : forall (p : params) (sched : list nat),
  let s := final p sched in
  length (roots (g s)) <= 1 /\
  (roots (g s) = [] \/ roots (g s) = [if ab_won (g s) then RDone else expected p]) /\
  (quiescent s = true ->
     roots (g s) = if awaited p then [if ab_won (g s) then RDone else expected p] else []) /\
  (ab_won (g s) = true -> ext_stop (m s) = true /\ (p_prog p = PStop \/ p_prog p = PConnDrop)) /\
  (ab_won (g s) = true -> op_won (g s) = true -> False) /\
  (quiescent s = true -> awaited p = true -> ab_won (g s) = true \/ op_won (g s) = true).
Proof. exact future_result. Qed.
Print Assumptions C09_future_result.

(* dropping or cancelling the future requests stop on the spawned operation *)
Theorem C09_drop_or_cancel_stops_op : forall (p : params) (sched : list nat),
  let s := final p sched in
  (quiescent s = true ->
     (op_won (g s) = false -> src_stop (g s) = true) /\
     (drop_init (g s) = true -> src_stop (g s) = true) /\
     (ab_won (g s) = true -> src_stop (g s) = true)) /\
  (src_stop (g s) = true -> awaited p = false \/ ext_stop (m s) = true).
Proof. exact drop_or_cancel_stops_op. Qed.
Print Assumptions C09_drop_or_cancel_stops_op.

(* no step touches freed shared state (and no assert / terminate branch is taken):
   fixed code, all parameters; code as written away from findings 13 and 14 *)
Theorem C09_no_access_after_delete : forall (p : params) (sched : list nat),
  let s := final p sched in
  p_fixed p || (away13 p && away14 p) = true -> uaf (g s) = false /\ bad (g s) = false.
Proof. exact no_access_after_delete. Qed.
Print Assumptions C09_no_access_after_delete.

Theorem C09_no_access_after_delete_fixed :
  forall (o : outcome) (fault : bool) (pr : prog) (sched : list nat),
  let p := {| p_fixed := true; p_out := o; p_fault := fault; p_prog := pr |} in
  let c := run step sched (init p, []) in
  uaf (g (fst c)) = false /\ bad (g (fst c)) = false /\ trace_safe (snd c) = true.
Proof.
  intros o fault pr sched. cbv zeta. split; [|split].
  - apply (no_access_after_delete _ sched). reflexivity.
  - apply (no_access_after_delete _ sched). reflexivity.
  - apply trace_no_access_after_delete. reflexivity.
Qed.
Print Assumptions C09_no_access_after_delete_fixed.

(* trace forms: the ERoot / EDealloc events of the trace are what the ghost fields record, and
   after EDealloc no event accesses the shared state *)
Theorem C09_trace_roots : forall (p : params) (sched : list nat),
  let c := run step sched (init p, []) in root_evs (snd c) = rev (roots (g (fst c))).
Proof. exact trace_roots. Qed.
Print Assumptions C09_trace_roots.

Theorem C09_trace_deallocs : forall (p : params) (sched : list nat),
  let c := run step sched (init p, []) in
  length (filter is_dealloc (snd c)) = deleted (g (fst c)).
Proof. exact trace_deallocs. Qed.
Print Assumptions C09_trace_deallocs.

Theorem C09_trace_no_access_after_delete : forall (p : params) (sched : list nat),
  p_fixed p || away13 p = true ->
  trace_safe (snd (run step sched (init p, []))) = true.
Proof. exact trace_no_access_after_delete. Qed.
Print Assumptions C09_trace_no_access_after_delete.

(* no deadlock *)
Theorem C09_progress : forall (p : params) (sched : list nat),
  let s := final p sched in
  quiescent s = false -> exists t, step t s <> None.
Proof. exact progress. Qed.
Print Assumptions C09_progress.

(* ---- the code as written violates two of the statements ------------------------------------ *)

(* finding 7: value whose copy throws, future dropped between the CAS to value and the store of
   error: the destructor runs on the never-constructed values_ and error_ is never destroyed *)
Theorem C09_result_destroyed_matching_refuted :
  exists sched,
    let s := final p_finding7 sched in
    quiescent s = true /\ constructed (g s) = Some MErr /\ destroyed (g s) = [MVal] /\
    In (EValDtor false) (snd (run step sched (init p_finding7, []))).
Proof. exact result_destroyed_matching_refuted. Qed.
Print Assumptions C09_result_destroyed_matching_refuted.

(* finding 13: a stop request on the awaiting receiver after the result was consumed and the
   shared state deleted, before the future's own operation state (holding the stop callback) is
   destroyed: abandon does its CAS on freed memory *)
Theorem C09_no_access_after_delete_refuted :
  exists sched,
    let c := run step sched (init p_finding13, []) in
    uaf (g (fst c)) = true /\ deleted (g (fst c)) = 1 /\ trace_safe (snd c) = false /\
    snd c = [EExtAcq true 0 2; EExtRel 0; EEvL EvNull; EEvC EvNull true;
             EStC CsComplete FInit FValue true; EValCtor; EEvX EvWaiter; EPost;
             EStL FValue; EValDtor true; EDealloc;
             EExtAcq true 0 3; EExtRel 1; EStC CsAbandon FPoison FAband false].
Proof. exact no_access_after_delete_refuted. Qed.
Print Assumptions C09_no_access_after_delete_refuted.

(* finding 14: the stop callback is registered by connect; a stop request before the (never
   happening) start runs abandon; destroying the operation state calls drop, which finds
   abandoned and calls std::terminate (in the model: bad, Fut stops, nothing is ever freed) *)
Theorem C09_drop_after_abandon_refuted :
  exists sched,
    let c := run step sched (init p_finding14, []) in
    quiescent (fst c) = true /\ bad (g (fst c)) = true /\ deleted (g (fst c)) = 0 /\
    In ETerminate (snd c) /\ src_stop (g (fst c)) = true.
Proof. exact drop_after_abandon_refuted. Qed.
Print Assumptions C09_drop_after_abandon_refuted.

(* ---- the hypotheses are met by concrete non-trivial runs ------------------------------------ *)

(* the same two schedules on the FIXED model: drop re-reads error and destroys error_; the stop
   callback is already deregistered when the stop request arrives, abandon never runs *)
Example C09_example_fixed_finding7_schedule :
  let p := {| p_fixed := true; p_out := OVal; p_fault := true; p_prog := PDrop |} in
  let c := run step [0; 1; 0; 0; 1; 1] (init p, []) in
  quiescent (fst c) = true /\ constructed (g (fst c)) = Some MErr /\ destroyed (g (fst c)) = [MErr] /\
  deleted (g (fst c)) = 1 /\
  snd c = [EStC CsComplete FInit FValue true; EThrow; EStL FValue; EStS FError; EEvX EvNull;
           EEvL EvSig; EStL FError; EDealloc].
Proof. vm_compute. repeat split. Qed.

Example C09_example_fixed_finding13_schedule :
  let p := {| p_fixed := true; p_out := OVal; p_fault := false; p_prog := PStop |} in
  let c := run step [1; 1; 1; 1; 0; 0; 1; 1; 1; 2; 2] (init p, []) in
  quiescent (fst c) = true /\ roots (g (fst c)) = [RVal] /\ uaf (g (fst c)) = false /\
  ab_won (g (fst c)) = false /\ op_won (g (fst c)) = true /\
  snd c = [EExtAcq true 0 2; EExtRel 0; EEvL EvNull; EEvC EvNull true;
           EStC CsComplete FInit FValue true; EValCtor; EEvX EvWaiter; EPost;
           EExtAcq false 0 2; EExtRel 0; EStL FValue; EValDtor true; EDealloc; ERoot RVal;
           EExtAcq true 0 3; EExtRel 1].
Proof. vm_compute. repeat split. Qed.

(* cancellation wins: stop before the operation completes; abandon moves init -> abandoned,
   requests stop on the operation, wakes the future, which completes with done and hands the
   deletion to the operation (CAS abandoned -> complete); the operation deletes *)
Example C09_example_cancel_then_op_deletes :
  let p := {| p_fixed := true; p_out := OVal; p_fault := false; p_prog := PStop |} in
  let c := run step [1; 1; 1; 1; 2; 2; 2; 2; 2; 2; 2; 2; 2; 1; 1; 1; 1; 1; 0] (init p, []) in
  quiescent (fst c) = true /\ roots (g (fst c)) = [RDone] /\ ab_won (g (fst c)) = true /\
  src_stop (g (fst c)) = true /\ deleted (g (fst c)) = 1 /\ constructed (g (fst c)) = None /\
  destroyed (g (fst c)) = [] /\ uaf (g (fst c)) = false.
Proof. vm_compute. repeat split. Qed.

(* both sides race abandoned -> complete: the operation wins the CAS, the future loses it and
   therefore deletes *)
Example C09_example_negotiate_future_deletes :
  let p := {| p_fixed := false; p_out := OErr; p_fault := false; p_prog := PStop |} in
  let c := run step [2; 2; 1; 1; 1; 1; 1; 1; 1; 0; 0; 1] (init p, []) in
  quiescent (fst c) = true /\ roots (g (fst c)) = [RDone] /\ deleted (g (fst c)) = 1 /\
  snd c = [EExtAcq true 0 3; EExtRel 1; EExtObs false;
           EStC CsAbandon FInit FAband true; ESrcSet; ESrcEnd; EEvX EvNull;
           EEvL EvSig; EPost; EStL FAband;
           EStC CsComplete FAband FError false; EStC CsNegotiate FAband FComplete true;
           EStC CsConsume FComplete FComplete false; EDealloc; ERoot RDone].
Proof. vm_compute. repeat split. Qed.

(* the schedule of finding 14 on the fixed model: drop finds abandoned, wins the CAS abandoned ->
   complete and leaves; the operation then finds complete and deletes *)
Example C09_example_fixed_finding14_schedule :
  let p := {| p_fixed := true; p_out := OVal; p_fault := false; p_prog := PConnDrop |} in
  let c := run step (sched_finding14 ++ [1]) (init p, []) in
  quiescent (fst c) = true /\ bad (g (fst c)) = false /\ deleted (g (fst c)) = 1 /\ roots (g (fst c)) = [] /\
  snd c = [EExtAcq true 0 2; EExtRel 0; EExtAcq true 0 3; EExtRel 1;
           EStC CsAbandon FInit FAband true; ESrcSet; ESrcEnd; EEvX EvNull; ECbDone;
           EExtAcq false 1 3; EExtRel 1; EExtAcq false 1 3; EExtRel 1; ECbWait; EStL FAband;
           EStC CsComplete FAband FValue false; EStC CsNegotiate FAband FComplete true;
           EStC CsDropNeg FComplete FComplete false; EDealloc].
Proof. vm_compute. repeat split. Qed.

(* ---- faults during spawn (SpawnFault, sequential) --------------------------------------------- *)
(* for spawn_detached and spawn_future and a fault at any one of their fault points (allocation,
   nest of the future, nest of the sender, connect) or none: the heap block allocated is
   deallocated, every scope reference is given back, the exception leaves the call exactly when
   a fault was injected, nothing was started if it threw, and the clean run starts and completes
   exactly one operation *)
Theorem C09_spawn_fault_clean : forall (g : SpawnFault.fn) (f : option SpawnFault.stage),
  SpawnFaultProofs.fault_valid g f ->
  let s := SpawnFault.run false g f in
  SpawnFault.allocs s = SpawnFault.deallocs s /\ SpawnFault.refs s = 0 /\
  (SpawnFault.threw s = true <-> f <> None) /\
  (SpawnFault.threw s = true -> SpawnFault.started s = 0) /\
  (SpawnFault.threw s = false ->
     SpawnFault.started s = 1 /\ SpawnFault.completed s = 1 /\ SpawnFault.allocs s = 1) /\
  SpawnFault.allocs s = (match f with Some SpawnFault.SAlloc => 0 | _ => 1 end).
Proof. exact SpawnFaultProofs.spawn_fault_clean. Qed.
Print Assumptions C09_spawn_fault_clean.

(* the variant of spawn_detached whose deallocating guard is armed only after nest() (the
   seeded defect C09-seed2) leaks the block when nest throws *)
Theorem C09_spawn_fault_late_guard_refuted :
  let s := SpawnFault.run true SpawnFault.Detached (Some SpawnFault.SNestOp) in
  SpawnFault.threw s = true /\ SpawnFault.allocs s = 1 /\ SpawnFault.deallocs s = 0.
Proof. exact SpawnFaultProofs.spawn_fault_late_guard_refuted. Qed.
Print Assumptions C09_spawn_fault_late_guard_refuted.
