(* C13 (sequential half) - streams deliver the adapted sequence in order and clean up exactly once.
   Model: Calc/StreamDefs.v (module SCalc); specification: Calc/StreamSpec.v; proofs: Calc/Stream*.v.
   All theorems quantify over ALL pipelines e (with distinct source ids), ALL consumers, ALL scripts
   (next/cleanup completions with any values / errors / done in any order, stop, armed stop) and
   BOTH variants of the model unless a variant is named. *)
From Coq Require Import ZArith List Bool Arith.
From V Require Import Calc.StreamDefs Calc.StreamSpec Calc.StreamInv Calc.StreamInvAd Calc.StreamMon Calc.StreamTop Calc.StreamProofs Calc.StreamUaf.
Import ListNotations.
Import SCalc.
Local Open Scope Z_scope.

(* The elements handed to the consumer's function are, in order, a prefix of what the adaptors'
   definitions prescribe for the outcomes the scripted source produced (no element duplicated,
   invented or reordered - under any timing of stop). *)
Theorem C13_elements_prefix_of_denotation : forall vr c e pre script, wf_ids e ->
  prefix (feeds (x_tr (exec vr c e pre script))) (sdenote e (src_hist (x_tr (exec vr c e pre script)))).
Proof. exact feeds_prefix_denote. Qed.
Print Assumptions C13_elements_prefix_of_denotation.

(* When the consumer completes with a value and nothing in the pipeline can drop a signal (no
   stop_immediately / never_stream), it was given exactly the prescribed elements. *)
Theorem C13_elements_exact : forall vr c e pre script, wf_ids e -> lossless e = true ->
  forall v, In (OVal v) (roots (x_tr (exec vr c e pre script))) ->
  feeds (x_tr (exec vr c e pre script)) = sdenote e (src_hist (x_tr (exec vr c e pre script))).
Proof. exact root_value_elements_exact. Qed.
Print Assumptions C13_elements_exact.

(* reduce_stream / for_each complete with the fold over precisely the elements delivered. *)
Theorem C13_result_is_fold : forall vr c e pre script, wf_ids e ->
  forall v, In (OVal v) (roots (x_tr (exec vr c e pre script))) ->
  fold_until c (cons_init c) (feeds (x_tr (exec vr c e pre script))) = inl v.
Proof. exact root_value_is_fold. Qed.
Print Assumptions C13_result_is_fold.

(* For every scripted source (pipeline source and take_until triggers) the monitor [mstep] accepts
   the whole trace: next operations numbered consecutively, never two outstanding; cleanup started
   at most once, only if some next was started, never while a next is outstanding; no next after
   cleanup started. *)
Theorem C13_cleanup_once_after_last_next : forall vr c e pre script, wf_ids e ->
  forall id, exists m, mrun id m0 (tevs (x_tr (exec vr c e pre script))) = Some m.
Proof. exact monitor_accepts. Qed.
Print Assumptions C13_cleanup_once_after_last_next.

(* The consumer's result is delivered at most once, only after cleanup of every source whose next was
   ever started has completed (and of no other), with no next outstanding; nothing is fed afterwards. *)
Theorem C13_result_after_cleanup : forall vr c e pre script, wf_ids e ->
  forall o, In o (roots (x_tr (exec vr c e pre script))) ->
  exists a b, x_tr (exec vr c e pre script) = a ++ XRoot o :: b /\ roots a = [] /\ roots b = [] /\ feeds b = [] /\
    forall id, exists m, mrun id m0 (tevs a) = Some m /\ mquiet m.
Proof. exact result_after_cleanup. Qed.
Print Assumptions C13_result_after_cleanup.

(* ... the same in plain counting terms (cnt f l = number of events of l satisfying f): *)
Theorem C13_cleanup_at_most_once : forall vr c e pre script, wf_ids e -> forall id,
  (cnt (is_cstart id) (tevs (x_tr (exec vr c e pre script))) <= 1)%nat.
Proof. intros. apply cleanup_at_most_once. apply monitor_accepts; auto. Qed.
Print Assumptions C13_cleanup_at_most_once.

(* when cleanup of source id starts, some next of it was started, every started next has completed,
   and none is started afterwards *)
Theorem C13_cleanup_after_next : forall vr c e pre script, wf_ids e -> forall id a b,
  tevs (x_tr (exec vr c e pre script)) = a ++ TCleanupStart id :: b ->
  cnt (is_nstart id) a <> 0%nat /\ cnt (is_nstart id) a = cnt (is_ndone id) a /\ cnt (is_nstart id) b = 0%nat.
Proof. intros. eapply cleanup_after_last_next; eauto. apply monitor_accepts; auto. Qed.
Print Assumptions C13_cleanup_after_next.

(* cleanup_once_iff_started + result_after_cleanup: when the root completes, for every source either
   nothing of it ever happened, or a next was started, all its nexts completed, and its cleanup was
   started exactly once and completed exactly once - all before the root *)
Theorem C13_cleanup_once_iff_started_before_result : forall vr c e pre script, wf_ids e ->
  forall o, In o (roots (x_tr (exec vr c e pre script))) ->
  exists a b, x_tr (exec vr c e pre script) = a ++ XRoot o :: b /\
    forall id, cnt (is_nstart id) (tevs a) = cnt (is_ndone id) (tevs a) /\
      ((cnt (is_nstart id) (tevs a) = 0 /\ cnt (is_cstart id) (tevs a) = 0 /\ cnt (is_cdone id) (tevs a) = 0)%nat \/
       (cnt (is_nstart id) (tevs a) <> 0 /\ cnt (is_cstart id) (tevs a) = 1 /\ cnt (is_cdone id) (tevs a) = 1)%nat).
Proof.
  intros vr c e pre script W o Hin. destruct (result_after_cleanup vr c e pre script W o Hin) as (a & b & E & _ & _ & _ & Hq).
  exists a, b. split; auto. intros id. destruct (Hq id) as (m & Hm & Hqm). eapply mquiet_plain; eauto.
Qed.
Print Assumptions C13_cleanup_once_iff_started_before_result.

Theorem C13_root_at_most_once : forall vr c e pre script, wf_ids e ->
  (length (roots (x_tr (exec vr c e pre script))) <= 1)%nat.
Proof. intros. eapply proj1. apply root_at_most_once; auto. Qed.
Print Assumptions C13_root_at_most_once.

(* The repaired code never touches a destroyed operation state ... *)
Theorem C13_fixed_no_use_after_destroy : forall c e pre script k,
  ~ In (XT (TUaf k)) (x_tr (exec fixed c e pre script)).
Proof. exact fixed_no_uaf. Qed.
Print Assumptions C13_fixed_no_use_after_destroy.

(* finding 2 repaired, PARTIAL.  Full statement wanted: "every tracked operation state of a scripted source
   (next and cleanup, source and trigger) is destroyed exactly once, after it completed" for all pipelines and
   runs.  Proved here: in the repaired model take_until destroys exactly the trigger's cleanup operation when the
   trigger's cleanup completes (as written it destroys the source's, see the refutation below); the global
   exactly-once count is checked on the real code by the K2-stream monitor (tracked op-states) only. *)
Theorem C13_take_until_trigger_cleanup_op_destroyed_partial : forall tid tr I u si o s' ev oc,
  src_cleanup_complete tid (tu_trig u) o = (s', ev, Some oc, true) ->
  b_ev (fst (ro_leaf (tu_ops fixed tid tr I) (BUn (KTU u) si) (TgClean tid) o)) = [TCleanupDone tid oc; TOpDel tid].
Proof.
  intros. rewrite (tu_trigger_cleanup_opdel fixed tid tr I u si o s' ev oc H). destruct oc; reflexivity.
Qed.
Print Assumptions C13_take_until_trigger_cleanup_op_destroyed_partial.

(* ... the code as written does (DESIGN.md section 8): *)
(* finding 9: stop_immediately's next-op start() goes on through its destroyed operation *)
Theorem C13_stop_immediately_start_refuted :
  exists c e pre script, In (XT (TUaf 0)) (x_tr (exec as_written c e pre script)).
Proof. exact si_start_uaf_as_written. Qed.
Print Assumptions C13_stop_immediately_start_refuted.

(* stop_immediately's cleanup receiver forwards a reference into the cleanup operation it destroyed *)
Theorem C13_stop_immediately_cleanup_error_refuted :
  exists c e pre script, In (XT (TUaf 1)) (x_tr (exec as_written c e pre script)).
Proof. exact si_cleanup_error_uaf_as_written. Qed.
Print Assumptions C13_stop_immediately_cleanup_error_refuted.

(* type_erased_stream's receiver wrappers read their members after destroying their operation *)
Theorem C13_type_erase_wrapper_refuted :
  exists c e pre script, In (XT (TUaf 2)) (x_tr (exec as_written c e pre script)).
Proof. exact te_wrapper_uaf_as_written. Qed.
Print Assumptions C13_type_erase_wrapper_refuted.

(* finding 2: take_until destroys the source's cleanup operation twice and the trigger's never *)
Theorem C13_take_until_cleanup_ops_destroyed_once_refuted :
  exists c e pre script,
    count_occ tev_eq_dec (tevs (x_tr (exec as_written c e pre script))) (TOpDel 0) = 2%nat /\
    count_occ tev_eq_dec (tevs (x_tr (exec as_written c e pre script))) (TOpDel 1) = 0%nat /\
    In (XT (TCleanupDone 1 ODone)) (x_tr (exec as_written c e pre script)).
Proof. exact tu_opdel_as_written. Qed.
Print Assumptions C13_take_until_cleanup_ops_destroyed_once_refuted.

(* ---- adapt_stream / next_adapt_stream / cleanup_adapt_stream, via_stream / typed_via_stream / on_stream, delay ----
   All theorems above quantify over the enlarged grammar (SNextAdapt, SCleanupAdapt, SAdapt1, SAdapt2 with every
   sender adaptor of the table [sadapt]); the definitions of via_stream / typed_via_stream / on_stream / delay
   are the compositions the headers write (StreamDefs.v).  What the adaptors' definitions add: *)

(* next_adapt_stream(s, then(f)) delivers map f of the source's elements (ending where f throws) ... *)
Theorem C13_next_adapt_then_elements : forall vr c f s pre script, wf_ids s ->
  prefix (feeds (x_tr (exec vr c (SNextAdapt (AThen f) s) pre script)))
         (map_until f (sdenote s (src_hist (x_tr (exec vr c (SNextAdapt (AThen f) s) pre script))))).
Proof. intros. apply (feeds_prefix_denote vr c (SNextAdapt (AThen f) s)). exact H. Qed.
Print Assumptions C13_next_adapt_then_elements.

Theorem C13_next_adapt_then_elements_exact : forall vr c f s pre script, wf_ids s -> lossless s = true ->
  forall v, In (OVal v) (roots (x_tr (exec vr c (SNextAdapt (AThen f) s) pre script))) ->
  feeds (x_tr (exec vr c (SNextAdapt (AThen f) s) pre script)) =
  map_until f (sdenote s (src_hist (x_tr (exec vr c (SNextAdapt (AThen f) s) pre script)))).
Proof. intros. eapply (root_value_elements_exact vr c (SNextAdapt (AThen f) s)); eauto. Qed.
Print Assumptions C13_next_adapt_then_elements_exact.

(* ... cleanup_adapt_stream, via_stream, typed_via_stream, on_stream and delay yield exactly the source's
   elements, in order (a prefix under any timing of stop; all of them when the consumer completes with a
   value and nothing below drops signals) *)
Definition hops_only (w : stexpr -> stexpr) : Prop :=
  (exists a, w = SCleanupAdapt a) \/ (exists sid, w = via_stream sid) \/ (exists sid, w = typed_via_stream sid) \/
  (exists sid, w = on_stream sid) \/ (exists sid d, w = delay sid d).

Theorem C13_scheduler_streams_elements : forall w, hops_only w -> forall vr c s pre script, wf_ids s ->
  prefix (feeds (x_tr (exec vr c (w s) pre script))) (sdenote s (src_hist (x_tr (exec vr c (w s) pre script)))) /\
  (lossless s = true -> forall v, In (OVal v) (roots (x_tr (exec vr c (w s) pre script))) ->
   feeds (x_tr (exec vr c (w s) pre script)) = sdenote s (src_hist (x_tr (exec vr c (w s) pre script)))).
Proof.
  intros w Hw vr c s pre script W.
  destruct Hw as [[a ->]|[[sid ->]|[[sid ->]|[[sid ->]|[sid [d ->]]]]]]; split;
    match goal with
    | |- prefix (feeds (x_tr (exec _ _ ?e _ _))) _ => exact (feeds_prefix_denote vr c e pre script W)
    | |- _ -> forall v, In _ (roots (x_tr (exec _ _ ?e _ _))) -> _ =>
        intros Hl v Hin; exact (root_value_elements_exact vr c e pre script W Hl v Hin)
    end.
Qed.
Print Assumptions C13_scheduler_streams_elements.

(* every completion of next() and of cleanup() of via_stream / typed_via_stream / delay is delivered from the
   scheduler's context: the last event before the completion is the hop on that scheduler (the inner
   completion o is re-delivered unchanged) *)
Theorem C13_via_next_completes_on_scheduler : forall an ac ow pre r o t, hop_of an = Some t ->
  b_out (ad_wrap an ac ow pre r) = Some (KN, o) ->
  r_out r = Some (KN, o) /\ exists ev, b_ev (ad_wrap an ac ow pre r) = ev ++ [t].
Proof. exact ad_next_completes_on_scheduler. Qed.
Print Assumptions C13_via_next_completes_on_scheduler.

Theorem C13_via_cleanup_completes_on_scheduler : forall an ac ow pre r o t, hop_of ac = Some t ->
  b_out (ad_wrap an ac ow pre r) = Some (KC, o) ->
  r_out r = Some (KC, o) /\ exists ev, b_ev (ad_wrap an ac ow pre r) = ev ++ [t].
Proof. exact ad_cleanup_completes_on_scheduler. Qed.
Print Assumptions C13_via_cleanup_completes_on_scheduler.

(* on_stream: the inner next() / cleanup() is STARTED from the scheduler's context *)
Theorem C13_on_stream_next_starts_on_scheduler : forall sid ac I si en,
  exists ev, b_ev (ro_next (ad_ops (AOn sid) ac I) (BUn KAd si) en) = THop sid 0 :: r_ev (o_next I si en) ++ ev.
Proof. exact ad_on_starts_on_scheduler. Qed.
Print Assumptions C13_on_stream_next_starts_on_scheduler.

Theorem C13_on_stream_cleanup_starts_on_scheduler : forall sid an I si,
  exists ev, b_ev (ro_clean (ad_ops an (AOn sid) I) (BUn KAd si)) = THop sid 0 :: r_ev (o_clean I si) ++ ev.
Proof. exact ad_on_cleanup_starts_on_scheduler. Qed.
Print Assumptions C13_on_stream_cleanup_starts_on_scheduler.

(* ---- the hypotheses are met by concrete non-trivial runs ------------------------------------------------ *)
Definition ex_pipe : stexpr :=
  STakeUntil (SFilter PEven (STransform (FAdd 1) (SSrc 0 true))) 1 true.
Definition ex_script : list sev :=
  [EvNext 0 (OVal 1); EvNext 0 (OVal 2); EvNext 0 (OVal 3); EvNext 1 (OVal 0); EvClean 0 ODone; EvClean 1 ODone].

Example ex_wf : wf_ids ex_pipe.
Proof. unfold wf_ids, ex_pipe. simpl. repeat constructor; simpl; intuition congruence. Qed.
Example ex_feeds : feeds (x_tr (exec fixed (CReduce 0 RSum) ex_pipe 0 ex_script)) = [2; 4].
Proof. vm_compute. reflexivity. Qed.
Example ex_denote : sdenote ex_pipe (src_hist (x_tr (exec fixed (CReduce 0 RSum) ex_pipe 0 ex_script))) = [2; 4].
Proof. vm_compute. reflexivity. Qed.
Example ex_root : roots (x_tr (exec fixed (CReduce 0 RSum) ex_pipe 0 ex_script)) = [OVal 6].
Proof. vm_compute. reflexivity. Qed.
(* in the repaired model the same run destroys each cleanup operation once *)
Example ex_opdel_fixed :
  count_occ tev_eq_dec (tevs (x_tr (exec fixed (CReduce 0 RSum) ex_pipe 0 ex_script))) (TOpDel 0) = 1%nat /\
  count_occ tev_eq_dec (tevs (x_tr (exec fixed (CReduce 0 RSum) ex_pipe 0 ex_script))) (TOpDel 1) = 1%nat.
Proof. vm_compute. auto. Qed.
(* stop in the middle: a prefix is delivered, the root still completes after both cleanups *)
Example ex_stop : feeds (x_tr (exec fixed (CReduce 0 RSum) ex_pipe 0
                          [EvNext 0 (OVal 1); EvStop; EvClean 0 ODone; EvClean 1 ODone])) = [2] /\
                  roots (x_tr (exec fixed (CReduce 0 RSum) ex_pipe 0
                          [EvNext 0 (OVal 1); EvStop; EvClean 0 ODone; EvClean 1 ODone])) = [OVal 2].
Proof. vm_compute. auto. Qed.

(* the adapt_stream family: via_stream over a filtered scripted source under on_stream, stop in the middle *)
Definition ex_pipe2 : stexpr := on_stream 8 (via_stream 7 (SNextAdapt (AThen (FMul 2)) (SSrc 0 true))).
Example ex2_wf : wf_ids ex_pipe2.
Proof. unfold wf_ids, ex_pipe2. simpl. repeat constructor; simpl; intuition congruence. Qed.
Example ex2_run : x_tr (exec fixed (CReduce 0 RSum) ex_pipe2 0 [EvNext 0 (OVal 3); EvStop; EvClean 0 ODone]) =
  [XT (THop 8 0); XT (TNextStart 0 0 false); XT (TNextDone 0 0 (OVal 3)); XT (TCall (FMul 2) 3); XT (THop 7 0); XFeed 0 6;
   XT (THop 8 0); XT (TNextStart 0 1 false); XT (TNextStopSeen 0 1); XT (TNextDone 0 1 ODone); XT (THop 7 0);
   XT (THop 8 0); XT (TCleanupStart 0); XT (TCleanupDone 0 ODone); XT (TOpDel 0); XT (THop 7 0); XRoot (OVal 6)].
Proof. vm_compute. reflexivity. Qed.
